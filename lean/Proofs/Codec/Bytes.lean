import AiocoapModel.Basic.Bytes
import AiocoapModel.Codec.Rfc7252
/-! Big-endian integer lemmas used by the option value codecs. -/
namespace Aiocoap

theorem beToNat_foldl (acc : Nat) (b : Bytes) :
    b.foldl (fun acc x => acc * 256 + x) acc = acc * 256 ^ b.length + beToNat b := by
  induction b generalizing acc with
  | nil => simp [beToNat]
  | cons x r ih =>
    simp only [List.foldl_cons, List.length_cons, beToNat]
    rw [ih, ih (0 * 256 + x)]
    simp only [Nat.zero_mul, Nat.zero_add, Nat.pow_succ]
    rw [Nat.add_mul, Nat.mul_assoc, Nat.add_assoc, Nat.mul_comm 256]

theorem beToNat_nil : beToNat [] = 0 := rfl

theorem beToNat_cons (x : Nat) (r : Bytes) :
    beToNat (x :: r) = x * 256 ^ r.length + beToNat r := by
  have := beToNat_foldl (0 * 256 + x) r
  simp only [beToNat, List.foldl_cons] at this ⊢
  rw [this]; simp

theorem beToNat_append_single (a : Bytes) (x : Nat) :
    beToNat (a ++ [x]) = beToNat a * 256 + x := by
  simp [beToNat, List.foldl_append]

/-- the specification's reading of a big-endian integer is the model's -/
theorem beValue_eq (b : Bytes) : Codec.Rfc7252.beValue b = beToNat b := by
  induction b with
  | nil => rfl
  | cons x r ih => rw [beToNat_cons, Codec.Rfc7252.beValue, ih]

theorem natToBE_length (k v : Nat) : (natToBE k v).length = k := by
  induction k generalizing v with
  | zero => simp [natToBE]
  | succ k ih => simp [natToBE, ih]

theorem natToBE_wf (k v : Nat) : Bytes.wf (natToBE k v) := by
  induction k generalizing v with
  | zero => simp [natToBE, Bytes.wf]
  | succ k ih =>
    simp only [natToBE]
    rw [Bytes.wf_append]
    refine ⟨ih _, ?_⟩
    intro x hx
    simp only [List.mem_singleton] at hx
    omega

theorem beToNat_natToBE (k v : Nat) : beToNat (natToBE k v) = v % 256 ^ k := by
  induction k generalizing v with
  | zero => simp [natToBE, beToNat, Nat.mod_one]
  | succ k ih =>
    simp only [natToBE]
    rw [beToNat_append_single, ih, Nat.pow_succ, Nat.mul_comm (256 ^ k) 256,
      Nat.mod_mul, Nat.add_comm, Nat.mul_comm]

theorem lt_pow_byteLen (v : Nat) : v < 256 ^ byteLen v := by
  induction v using Nat.strongRecOn with
  | _ v ih =>
    unfold byteLen
    split
    · subst_vars; simp
    · have h := ih (v / 256) (by omega)
      rw [Nat.pow_succ]
      omega

theorem byteLen_le_of_lt {v k : Nat} (h : v < 256 ^ k) : byteLen v ≤ k := by
  induction k generalizing v with
  | zero =>
    have : v = 0 := by simpa using h
    subst this; unfold byteLen; simp
  | succ k ih =>
    unfold byteLen
    split
    · omega
    · have : v / 256 < 256 ^ k := by
        rw [Nat.pow_succ] at h
        omega
      have := ih this
      omega

theorem beToNat_natToMinBE (v : Nat) : beToNat (natToMinBE v) = v := by
  unfold natToMinBE
  rw [beToNat_natToBE, Nat.mod_eq_of_lt (lt_pow_byteLen v)]

theorem natToMinBE_length (v : Nat) : (natToMinBE v).length = byteLen v := natToBE_length _ _

theorem natToMinBE_wf (v : Nat) : Bytes.wf (natToMinBE v) := natToBE_wf _ _

theorem beToNat_lt {b : Bytes} (h : b.wf) : beToNat b < 256 ^ b.length := by
  induction b with
  | nil => simp [beToNat]
  | cons x r ih =>
    rw [Bytes.wf_cons] at h
    have := ih h.2
    rw [beToNat_cons, List.length_cons, Nat.pow_succ]
    have hx : x * 256 ^ r.length ≤ 255 * 256 ^ r.length := Nat.mul_le_mul_right _ (by omega)
    omega

/-- re-serialising a parsed integer never takes more bytes than it arrived in -/
theorem natToMinBE_beToNat_length_le {b : Bytes} (h : b.wf) :
    (natToMinBE (beToNat b)).length ≤ b.length := by
  rw [natToMinBE_length]
  exact byteLen_le_of_lt (beToNat_lt h)

end Aiocoap
