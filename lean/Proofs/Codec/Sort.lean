import AiocoapModel.Codec.Options
/-! `sortOpts` (the model of `Options.option_list()`) is the stable sort by option number. -/
namespace Aiocoap.Codec

abbrev NumLe (a b : Opt) : Prop := a.num ≤ b.num

theorem insertOpt_mem {o p : Opt} {l : List Opt} : p ∈ insertOpt o l ↔ p = o ∨ p ∈ l := by
  induction l with
  | nil => simp [insertOpt]
  | cons q qs ih =>
    simp only [insertOpt]
    split
    · simp
    · simp only [List.mem_cons, ih]
      constructor
      · rintro (h | h | h) <;> simp [h]
      · rintro (h | h | h) <;> simp [h]

theorem sortOpts_mem {p : Opt} {l : List Opt} : p ∈ sortOpts l ↔ p ∈ l := by
  induction l with
  | nil => simp [sortOpts]
  | cons q qs ih => simp [sortOpts, insertOpt_mem, ih]

theorem insertOpt_sorted {o : Opt} {l : List Opt} (h : l.Pairwise NumLe) :
    (insertOpt o l).Pairwise NumLe := by
  induction l with
  | nil => simp [insertOpt]
  | cons q qs ih =>
    rw [List.pairwise_cons] at h
    simp only [insertOpt]
    split
    · rename_i hle
      refine List.Pairwise.cons ?_ (List.Pairwise.cons h.1 h.2)
      intro p hp
      rcases List.mem_cons.1 hp with rfl | hp
      · exact hle
      · exact Nat.le_trans hle (h.1 p hp)
    · rename_i hnle
      refine List.Pairwise.cons ?_ (ih h.2)
      intro p hp
      rcases insertOpt_mem.1 hp with rfl | hp
      · show q.num ≤ p.num
        omega
      · exact h.1 p hp

/-- the result is in non-decreasing number order -/
theorem sortOpts_sorted (l : List Opt) : (sortOpts l).Pairwise NumLe := by
  induction l with
  | nil => simp [sortOpts]
  | cons q qs ih => exact insertOpt_sorted ih

theorem insertOpt_of_le {o : Opt} {l : List Opt} (h : ∀ p ∈ l, o.num ≤ p.num) :
    insertOpt o l = o :: l := by
  cases l with
  | nil => rfl
  | cons q qs => simp [insertOpt, h q (by simp)]

/-- an ordered list is left alone -/
theorem sortOpts_of_sorted {l : List Opt} (h : l.Pairwise NumLe) : sortOpts l = l := by
  induction l with
  | nil => rfl
  | cons q qs ih =>
    rw [List.pairwise_cons] at h
    simp only [sortOpts]
    rw [ih h.2]
    exact insertOpt_of_le h.1

theorem sortOpts_idem (l : List Opt) : sortOpts (sortOpts l) = sortOpts l :=
  sortOpts_of_sorted (sortOpts_sorted l)

theorem insertOpt_perm (o : Opt) (l : List Opt) : (insertOpt o l).Perm (o :: l) := by
  induction l with
  | nil => exact List.Perm.refl _
  | cons q qs ih =>
    simp only [insertOpt]
    split
    · exact List.Perm.refl _
    · exact (List.Perm.cons q ih).trans (List.Perm.swap o q qs)

/-- the result is a rearrangement of the input -/
theorem sortOpts_perm (l : List Opt) : (sortOpts l).Perm l := by
  induction l with
  | nil => exact List.Perm.refl _
  | cons q qs ih => exact (insertOpt_perm q _).trans (List.Perm.cons q ih)

theorem insertOpt_filter (o : Opt) (l : List Opt) (n : Nat) :
    (insertOpt o l).filter (fun p => p.num == n) =
      (if o.num == n then [o] else []) ++ l.filter (fun p => p.num == n) := by
  induction l with
  | nil => by_cases h : (o.num == n) = true <;> simp [insertOpt, List.filter, h]
  | cons q qs ih =>
    simp only [insertOpt]
    split
    · by_cases h : (o.num == n) = true <;> simp [List.filter, h]
    · rename_i hnle
      rw [List.filter_cons, ih]
      by_cases ho : (o.num == n) = true
      · have : (q.num == n) = false := by
          simp only [beq_iff_eq] at ho
          simp only [beq_eq_false_iff_ne, ne_eq]
          omega
        simp [ho, this, List.filter]
      · simp [ho, List.filter_cons]

/-- stability: options of one number keep the order in which they were added -/
theorem sortOpts_stable (l : List Opt) (n : Nat) :
    (sortOpts l).filter (fun p => p.num == n) = l.filter (fun p => p.num == n) := by
  induction l with
  | nil => rfl
  | cons q qs ih =>
    simp only [sortOpts]
    rw [insertOpt_filter, ih, List.filter_cons]
    by_cases h : (q.num == n) = true <;> simp [h]

end Aiocoap.Codec
