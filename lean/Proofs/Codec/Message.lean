import Proofs.Codec.Options
import Proofs.Codec.Sort
/-! Whole-datagram lemmas: header, token, options, payload. -/
namespace Aiocoap.Codec

open Rfc7252

/-- the message as `encode` sees it: options in `option_list()` order -/
def Msg.canon (m : Msg) : Msg := { m with opts := sortOpts m.opts }

/-- messages the codec handles faithfully, with tokens of at most `k` bytes -/
def Msg.wfTok (k : Nat) (m : Msg) : Prop :=
  m.mtype < 4 ∧ m.code < 256 ∧ m.mid < 65536 ∧ m.token.length ≤ k ∧ m.token.wf ∧
  m.payload.wf ∧ OptsOK 0 (sortOpts m.opts)

theorem Msg.wfTok_mono {k k' : Nat} (hk : k ≤ k') {m : Msg} (h : m.wfTok k) : m.wfTok k' := by
  obtain ⟨a, b, c, d, e⟩ := h
  exact ⟨a, b, c, Nat.le_trans d hk, e⟩

theorem header_arith {t tkl : Nat} (ht : t < 4) (hk : tkl < 16) :
    (64 + t * 16 + tkl) / 64 % 4 = 1 ∧ (64 + t * 16 + tkl) % 16 = tkl ∧
    (64 + t * 16 + tkl) / 16 % 4 = t := by
  omega

/-- the payload part `encode` emits is one the option parser understands -/
theorem tailOf_encode (p : Bytes) : TailOf (if p.length > 0 then 0xFF :: p else []) p := by
  cases p with
  | nil => left; simp
  | cons x xs => right; simp

/-- the parser on a datagram laid out as in RFC 7252 Figure 7, with the two leniencies of the
code: any TKL < 16, and a marker may be followed by nothing -/
theorem decode_layout {t tkl code m1 m0 : Nat} {token ob tail pl : Bytes} {os : List Opt}
    (ht : t < 4) (hk : tkl < 16) (htok : token.length = tkl) (hol : OptList 0 ob os)
    (htail : TailOf tail pl) :
    decode ((64 + t * 16 + tkl) :: code :: m1 :: m0 :: (token ++ ob ++ tail)) =
      .ok { mtype := t, code, mid := m1 * 256 + m0, token, opts := os, payload := pl } := by
  obtain ⟨h1, h2, h3⟩ := header_arith ht hk
  have hdrop : (token ++ ob ++ tail).drop tkl = ob ++ tail := by
    rw [List.append_assoc, ← htok]; exact drop_append_len _ _
  have htake : (token ++ ob ++ tail).take tkl = token := by
    rw [List.append_assoc, ← htok]; exact take_append_len _ _
  simp only [decode, h1, h2, h3, hdrop, htake, optList_decodeOpts hol htail]
  simp

/-- the serialiser on a message it handles: the exact bytes -/
theorem encode_layout {m : Msg} (h : m.wfTok 15) :
    ∃ ob, OptList 0 ob (sortOpts m.opts) ∧
      encode m = .ok ((64 + m.mtype * 16 + m.token.length) :: m.code :: m.mid / 256 ::
        m.mid % 256 :: (m.token ++ ob ++ (if m.payload.length > 0 then 0xFF :: m.payload else []))) := by
  obtain ⟨ht, hc, hm, hk, _, _, hok⟩ := h
  obtain ⟨ob, henc, hol⟩ := optsOK_encodeOpts hok
  refine ⟨ob, hol, ?_⟩
  have e1 : m.mtype % 4 = m.mtype := by omega
  have e2 : m.token.length % 16 = m.token.length := by omega
  have e3 : ¬ (m.code ≥ 256 ∨ m.mid ≥ 65536) := by omega
  simp only [encode, e1, e2, e3, if_false, henc]

theorem encode_layout_wf {m : Msg} (h : m.wfTok 15) {b : Bytes} (he : encode m = .ok b) :
    b.wf := by
  obtain ⟨ob, hol, henc⟩ := encode_layout h
  rw [henc] at he; cases he
  obtain ⟨ht, hc, hm, hk, htw, hpw, _⟩ := h
  rw [Bytes.wf_cons, Bytes.wf_cons, Bytes.wf_cons, Bytes.wf_cons, Bytes.wf_append, Bytes.wf_append]
  refine ⟨by omega, hc, by omega, by omega, ⟨htw, optList_wf hol⟩, ?_⟩
  split
  · rw [Bytes.wf_cons]; exact ⟨by omega, hpw⟩
  · exact Bytes.wf_nil

/-- round trip for every message with a token of up to 15 bytes -/
theorem roundtrip_lax {m : Msg} (h : m.wfTok 15) :
    ∃ b, encode m = .ok b ∧ decode b = .ok m.canon := by
  obtain ⟨ob, hol, henc⟩ := encode_layout h
  refine ⟨_, henc, ?_⟩
  obtain ⟨ht, hc, hm, hk, _, _, hok⟩ := h
  rw [decode_layout ht (by omega) rfl hol (tailOf_encode _)]
  have : m.mid / 256 * 256 + m.mid % 256 = m.mid := by omega
  simp only [Msg.canon, this]

/-- inversion of a successful `decode`: the layout of the input and the returned fields -/
theorem decode_inv {raw : Bytes} {m : Msg} (hw : raw.wf) (h : decode raw = .ok m) :
    ∃ vttkl code m1 m0 rest ob tail,
      raw = vttkl :: code :: m1 :: m0 :: rest ∧ vttkl / 64 % 4 = 1 ∧
      rest.drop (vttkl % 16) = ob ++ tail ∧ OptList 0 ob m.opts ∧ TailOf tail m.payload ∧
      m = { mtype := vttkl / 16 % 4, code, mid := m1 * 256 + m0,
            token := rest.take (vttkl % 16), opts := m.opts, payload := m.payload } := by
  match raw, hw, h with
  | [], _, h => simp [decode] at h
  | [_], _, h => simp [decode] at h
  | [_, _], _, h => simp [decode] at h
  | [_, _, _], _, h => simp [decode] at h
  | vttkl :: code :: m1 :: m0 :: rest, hw, h =>
    simp only [decode] at h
    split at h
    · cases h
    · rename_i hv
      split at h
      · cases h
      · rename_i opts payload hdec
        cases h
        have hwrest : Bytes.wf rest := by
          rw [Bytes.wf_cons, Bytes.wf_cons, Bytes.wf_cons, Bytes.wf_cons] at hw
          exact hw.2.2.2.2
        obtain ⟨ob, tail, hsplit, hol, htail⟩ :=
          decodeOpts_optList _ _ 0 opts payload (Nat.le_refl _) (Bytes.wf_drop _ hwrest) hdec
        exact ⟨vttkl, code, m1, m0, rest, ob, tail, rfl, by simpa using hv, hsplit, hol, htail, rfl⟩

theorem tailOf_wf {tail pl : Bytes} (h : TailOf tail pl) (hw : tail.wf) : pl.wf := by
  rcases h with ⟨_, rfl⟩ | rfl
  · exact Bytes.wf_nil
  · exact (Bytes.wf_cons.1 hw).2

/-- whatever the parser returns is a message the serialiser handles, already in canonical
option order -/
theorem decode_wfTok {raw : Bytes} {m : Msg} (hw : raw.wf) (h : decode raw = .ok m) :
    m.wfTok 15 ∧ m.canon = m := by
  obtain ⟨vttkl, code, m1, m0, rest, ob, tail, rfl, hv, hsplit, hol, htail, hm⟩ := decode_inv hw h
  rw [Bytes.wf_cons, Bytes.wf_cons, Bytes.wf_cons, Bytes.wf_cons] at hw
  obtain ⟨_, hc, h1, h0, hwrest⟩ := hw
  have hok := optList_optsOK hol
  have hsorted : sortOpts m.opts = m.opts := sortOpts_of_sorted (optsOK_sorted hok).1
  have hdw : Bytes.wf (ob ++ tail) := by rw [← hsplit]; exact Bytes.wf_drop _ hwrest
  refine ⟨?_, ?_⟩
  · rw [hm]
    simp only [Msg.wfTok]
    refine ⟨by omega, hc, by omega, ?_, Bytes.wf_take _ hwrest,
      tailOf_wf htail (Bytes.wf_append.1 hdw).2, ?_⟩
    · simp only [List.length_take]; omega
    · rw [hsorted]; exact hok
  · simp only [Msg.canon, hsorted]

/-- the only failure of `decode` is `unparsable` -/
theorem decode_error {raw : Bytes} {e : DecErr} (h : decode raw = .error e) : e = .unparsable := by
  unfold decode at h
  split at h
  · split at h
    · cases h; rfl
    · dsimp only at h
      split at h
      · rename_i e' hdec
        cases h
        exact decodeOpts_error _ _ _ _ (Nat.le_refl _) hdec
      · cases h
  · cases h; rfl

end Aiocoap.Codec

namespace Aiocoap.Codec

open Rfc7252

/-- the accepted language: an RFC datagram, or one of the three leniencies of the code -/
theorem decode_accepted {raw : Bytes} {m : Msg} (hw : raw.wf) (h : decode raw = .ok m) :
    Datagram raw m ∨
    (∃ pre, raw = pre ++ [0xFF] ∧ Datagram pre m) ∨
    (∃ vttkl rest, raw = vttkl :: rest ∧ (8 < vttkl % 16 ∨ rest.length < 3 + vttkl % 16)) := by
  obtain ⟨vttkl, code, m1, m0, rest, ob, tail, rfl, hv, hsplit, hol, htail, hm⟩ := decode_inv hw h
  rw [Bytes.wf_cons, Bytes.wf_cons, Bytes.wf_cons, Bytes.wf_cons] at hw
  obtain ⟨hb, hc, h1, h0, hwrest⟩ := hw
  by_cases hk : 8 < vttkl % 16
  · exact .inr (.inr ⟨vttkl, _, rfl, .inl hk⟩)
  by_cases hlen : rest.length < vttkl % 16
  · refine .inr (.inr ⟨vttkl, _, rfl, .inr ?_⟩)
    simp only [List.length_cons]; omega
  have hrest : rest = rest.take (vttkl % 16) ++ ob ++ tail := by
    rw [List.append_assoc, ← hsplit, List.take_append_drop]
  have htl : (rest.take (vttkl % 16)).length = vttkl % 16 := by
    simp only [List.length_take]; omega
  have hwd : Bytes.wf (ob ++ tail) := by rw [← hsplit]; exact Bytes.wf_drop _ hwrest
  have hvt : vttkl = 1 * 64 + vttkl / 16 % 4 * 16 + vttkl % 16 := by omega
  have hmid1 : (m1 * 256 + m0) / 256 = m1 := by omega
  have hmid0 : (m1 * 256 + m0) % 256 = m0 := by omega
  have mk := fun (tl pl : Bytes) (hpp : PayloadPart tl pl) =>
    Datagram.mk (t := vttkl / 16 % 4) (tkl := vttkl % 16) (code := code) (mid := m1 * 256 + m0)
      (token := rest.take (vttkl % 16)) (ob := ob) (tail := tl) (payload := pl) (os := m.opts)
      (by omega) (by omega) hc (by omega) htl (Bytes.wf_take _ hwrest) hol hpp
  rw [hmid1, hmid0, ← hvt] at mk
  rcases htail with ⟨rfl, hpl⟩ | htl'
  · left
    have := mk [] [] .absent
    rw [← hrest, ← hpl, ← hm] at this
    exact this
  · by_cases hpe : m.payload = []
    · right; left
      refine ⟨vttkl :: code :: m1 :: m0 :: (rest.take (vttkl % 16) ++ ob ++ []), ?_, ?_⟩
      · rw (occs := [1]) [hrest, htl', hpe]; simp
      · have := mk [] [] .absent
        rw [hpe] at hm
        rw [← hm] at this
        exact this
    · left
      have := mk tail m.payload (by rw [htl']; exact .present hpe (tailOf_wf (.inr htl') (Bytes.wf_append.1 hwd).2))
      rw [← hrest, ← hm] at this
      exact this

/-- "any message the library can represent" in the sense of C01: type, code 0..255, 16-bit
message ID, token of 0..8 bytes, payload bytes, and options whose values are legal for their
format and whose deltas / value lengths (taken in `option_list()` order) fit the extended
fields (≤ 65804 = 0xFFFF + 269) -/
def Msg.wf (m : Msg) : Prop := m.wfTok 8

theorem Msg.wf_lax {m : Msg} (h : m.wf) : m.wfTok 15 := Msg.wfTok_mono (by omega) h

/-- serialised length of small integers -/
theorem natToMinBE_length_small {n : Nat} (h : n < 256 ^ 8) : (natToMinBE n).length ≤ 8 := by
  rw [natToMinBE_length]; exact byteLen_le_of_lt h

end Aiocoap.Codec
