import AiocoapModel.Codec.Rfc7252
/-! The executable UTF-8 check accepts exactly the RFC 3629 §4 grammar. -/
namespace Aiocoap.Codec

open Rfc7252

theorem isCont_iff (b : Nat) : isCont b = true ↔ Tail b := by
  simp [isCont, Tail]

theorem utf8_of_valid : ∀ (b : Bytes), utf8Valid b = true → Utf8 b
  | [], _ => .nil
  | b0 :: r, h => by
    unfold utf8Valid at h
    split at h
    · exact .u1 (by omega) (utf8_of_valid r h)
    · split at h
      · cases h
      · split at h
        · match r, h with
          | [], h => simp at h
          | b1 :: r1, h =>
            simp only [Bool.and_eq_true] at h
            exact .u2 (by omega) (by omega) ((isCont_iff _).1 h.1) (utf8_of_valid r1 h.2)
        · split at h
          · match r, h with
            | [], h => simp at h
            | [_], h => simp at h
            | b1 :: b2 :: r2, h =>
              simp only [Bool.and_eq_true, decide_eq_true_eq] at h
              obtain ⟨⟨⟨hlo, hhi⟩, h2⟩, hr⟩ := h
              have h2 := (isCont_iff _).1 h2
              have hr := utf8_of_valid r2 hr
              by_cases e0 : b0 = 0xE0
              · subst e0
                simp at hlo hhi
                exact .u3a hlo hhi h2 hr
              · by_cases ed : b0 = 0xED
                · subst ed
                  simp at hlo hhi
                  exact .u3c hlo hhi h2 hr
                · simp only [e0, ed, if_false] at hlo hhi
                  by_cases hle : b0 ≤ 0xEC
                  · exact .u3b (by omega) hle ⟨hlo, hhi⟩ h2 hr
                  · exact .u3d (by omega) (by omega) ⟨hlo, hhi⟩ h2 hr
          · split at h
            · match r, h with
              | [], h => simp at h
              | [_], h => simp at h
              | [_, _], h => simp at h
              | b1 :: b2 :: b3 :: r3, h =>
                simp only [Bool.and_eq_true, decide_eq_true_eq] at h
                obtain ⟨⟨⟨⟨hlo, hhi⟩, h2⟩, h3⟩, hr⟩ := h
                have h2 := (isCont_iff _).1 h2
                have h3 := (isCont_iff _).1 h3
                have hr := utf8_of_valid r3 hr
                by_cases e0 : b0 = 0xF0
                · subst e0
                  simp at hlo hhi
                  exact .u4a hlo hhi h2 h3 hr
                · by_cases e4 : b0 = 0xF4
                  · subst e4
                    simp at hlo hhi
                    exact .u4c hlo hhi h2 h3 hr
                  · simp only [e0, e4, if_false] at hlo hhi
                    exact .u4b (by omega) (by omega) ⟨hlo, hhi⟩ h2 h3 hr
            · cases h

theorem valid_of_utf8 {b : Bytes} (h : Utf8 b) : utf8Valid b = true := by
  induction h with
  | nil => rfl
  | u1 h _ ih => unfold utf8Valid; simp [ih]; omega
  | @u2 b0 b1 r h0 h1 ht _ ih =>
    unfold utf8Valid
    have := (isCont_iff _).2 ht
    have a : ¬ b0 < 0x80 := by omega
    have b : ¬ b0 < 0xC2 := by omega
    have c : b0 < 0xE0 := by omega
    simp [a, b, c, ih, this]
  | u3a h0 h1 ht _ ih =>
    unfold utf8Valid
    have := (isCont_iff _).2 ht
    simp [ih, this, h0, h1]
  | @u3b b0 b1 b2 r h0 h1 ht1 ht2 _ ih =>
    unfold utf8Valid
    have := (isCont_iff _).2 ht2
    have a : ¬ b0 < 0x80 := by omega
    have b : ¬ b0 < 0xC2 := by omega
    have c : ¬ b0 < 0xE0 := by omega
    have d : b0 < 0xF0 := by omega
    have e : ¬ b0 = 0xE0 := by omega
    have f : ¬ b0 = 0xED := by omega
    simp [a, b, c, d, e, f, ih, this, ht1.1, ht1.2]
  | u3c h0 h1 ht _ ih =>
    unfold utf8Valid
    have := (isCont_iff _).2 ht
    simp [ih, this, h0, h1]
  | @u3d b0 b1 b2 r h0 h1 ht1 ht2 _ ih =>
    unfold utf8Valid
    have := (isCont_iff _).2 ht2
    have a : ¬ b0 < 0x80 := by omega
    have b : ¬ b0 < 0xC2 := by omega
    have c : ¬ b0 < 0xE0 := by omega
    have d : b0 < 0xF0 := by omega
    have e : ¬ b0 = 0xE0 := by omega
    have f : ¬ b0 = 0xED := by omega
    simp [a, b, c, d, e, f, ih, this, ht1.1, ht1.2]
  | u4a h0 h1 ht2 ht3 _ ih =>
    unfold utf8Valid
    have := (isCont_iff _).2 ht2
    have := (isCont_iff _).2 ht3
    simp [*]
  | @u4b b0 b1 b2 b3 r h0 h1 ht1 ht2 ht3 _ ih =>
    unfold utf8Valid
    have := (isCont_iff _).2 ht2
    have := (isCont_iff _).2 ht3
    have a : ¬ b0 < 0x80 := by omega
    have b : ¬ b0 < 0xC2 := by omega
    have c : ¬ b0 < 0xE0 := by omega
    have d : ¬ b0 < 0xF0 := by omega
    have d' : b0 < 0xF5 := by omega
    have e : ¬ b0 = 0xF0 := by omega
    have f : ¬ b0 = 0xF4 := by omega
    simp [ht1.1, ht1.2, *]
  | u4c h0 h1 ht2 ht3 _ ih =>
    unfold utf8Valid
    have := (isCont_iff _).2 ht2
    have := (isCont_iff _).2 ht3
    simp [*]

theorem utf8Valid_iff (b : Bytes) : utf8Valid b = true ↔ Utf8 b :=
  ⟨utf8_of_valid b, valid_of_utf8⟩

end Aiocoap.Codec
