import Proofs.Codec.OptionValue
import Proofs.Codec.ExtField
/-!
Option list codec: the parser `decodeOpts`, the serialiser `encodeOpts` and the RFC 7252
§3.1 relation `OptList` determine each other.

  (A) `optList_decodeOpts`   grammar ⟹ parser reads exactly the assigned options
  (B) `optsOK_encodeOpts`    serialiser output is in the grammar
  (C) `decodeOpts_optList`   whatever the parser accepts is in the grammar
  (D) `optList_optsOK`       whatever is in the grammar can be serialised again
-/
namespace Aiocoap.Codec

open Rfc7252

-- unfolding lemmas for the well-founded recursion -------------------------------------------

theorem decodeOpts_nil (cur : Nat) : decodeOpts cur [] = .ok ([], []) := by
  rw [decodeOpts]

theorem decodeOpts_marker (cur : Nat) (rest : Bytes) :
    decodeOpts cur (255 :: rest) = .ok ([], rest) := by
  rw [decodeOpts]; simp

theorem decodeOpts_cons_step {cur b : Nat} {rest r1 r2 : Bytes} {delta len : Nat} {v : OptVal}
    (hb : b ≠ 255) (h1 : readExt (b / 16 % 16) rest = some (delta, r1))
    (h2 : readExt (b % 16) r1 = some (len, r2)) (hl : len ≤ r2.length)
    (hv : valDecode (formatOf (cur + delta)) (r2.take len) = .ok v) :
    decodeOpts cur (b :: rest) =
      match decodeOpts (cur + delta) (r2.drop len) with
      | .error e => .error e
      | .ok (os, pl) => .ok ({ num := cur + delta, val := v } :: os, pl) := by
  rw [decodeOpts]
  simp only [hb, if_false]
  split
  · rename_i heq; rw [h1] at heq; cases heq
  · rename_i d r1' heq
    rw [h1] at heq; cases heq
    split
    · rename_i heq; rw [h2] at heq; cases heq
    · rename_i l r2' heq
      rw [h2] at heq; cases heq
      have : ¬ r2.length < len := by omega
      simp only [this, if_false, hv]
      cases decodeOpts (cur + delta) (List.drop len r2) with
      | error e => rfl
      | ok p => rfl

/-- the only two ways `decodeOpts` succeeds on a non-empty input -/
theorem decodeOpts_cons_inv {cur b : Nat} {rest : Bytes} {os : List Opt} {pl : Bytes}
    (h : decodeOpts cur (b :: rest) = .ok (os, pl)) :
    (b = 255 ∧ os = [] ∧ pl = rest) ∨
    (b ≠ 255 ∧ ∃ delta r1 len r2 v os',
      readExt (b / 16 % 16) rest = some (delta, r1) ∧ readExt (b % 16) r1 = some (len, r2) ∧
      len ≤ r2.length ∧ valDecode (formatOf (cur + delta)) (r2.take len) = .ok v ∧
      decodeOpts (cur + delta) (r2.drop len) = .ok (os', pl) ∧
      os = { num := cur + delta, val := v } :: os') := by
  rw [decodeOpts] at h
  by_cases hb : b = 255
  · left
    simp only [hb, if_true] at h
    cases h
    exact ⟨hb, rfl, rfl⟩
  · right
    refine ⟨hb, ?_⟩
    simp only [hb, if_false] at h
    split at h
    · cases h
    · rename_i delta r1 h1
      split at h
      · cases h
      · rename_i len r2 h2
        by_cases hl : r2.length < len
        · simp only [hl, if_true] at h; cases h
        · simp only [hl, if_false] at h
          split at h
          · cases h
          · rename_i v hv
            split at h
            · cases h
            · rename_i os' pl' hrec
              cases h
              exact ⟨delta, r1, len, r2, v, os', h1, h2, by omega, hv, hrec, rfl⟩

/-- a decoding failure of the option parser is always `unparsable`: no other exception
type propagates (the value decoder's `UnicodeDecodeError` is converted) -/
theorem decodeOpts_error (n : Nat) : ∀ (cur : Nat) (raw : Bytes) (e : DecErr), raw.length ≤ n →
    decodeOpts cur raw = .error e → e = .unparsable := by
  induction n with
  | zero =>
    intro cur raw e hn h
    have : raw = [] := List.eq_nil_of_length_eq_zero (by omega)
    subst this; rw [decodeOpts_nil] at h; cases h
  | succ n ih =>
    intro cur raw e hn h
    cases raw with
    | nil => rw [decodeOpts_nil] at h; cases h
    | cons b rest =>
      rw [decodeOpts] at h
      split at h
      · cases h
      · split at h
        · cases h; rfl
        · rename_i delta r1 h1
          split at h
          · cases h; rfl
          · rename_i len r2 h2
            split at h
            · cases h; rfl
            · dsimp only at h
              split at h
              · cases h; rfl
              · split at h
                · rename_i e' hrec
                  cases h
                  have l1 := readExt_length_le h1
                  have l2 := readExt_length_le h2
                  refine ih _ _ _ ?_ hrec
                  simp only [List.length_drop, List.length_cons] at hn ⊢
                  omega
                · cases h

-- the re-encodable option lists -------------------------------------------------------------

/-- an option list that `encodeOpts cur` can serialise faithfully: numbers do not decrease,
every delta and every serialised value length fits an extended field (≤ 65804), every value is
legal for the format of its option number -/
def OptsOK (cur : Nat) : List Opt → Prop
  | [] => True
  | o :: os => cur ≤ o.num ∧ o.num - cur ≤ 65804 ∧ o.val.legal (formatOf o.num) ∧
      (valEncode o.val).length ≤ 65804 ∧ OptsOK o.num os

theorem take_append_len (a b : Bytes) : (a ++ b).take a.length = a := by simp
theorem drop_append_len (a b : Bytes) : (a ++ b).drop a.length = b := by simp

theorem nibbles {dn ln : Nat} (hd : dn ≤ 14) (hl : ln ≤ 14) :
    (dn * 16 + ln) / 16 % 16 = dn ∧ (dn * 16 + ln) % 16 = ln ∧ dn * 16 + ln ≠ 255 := by
  omega

/-- what may follow the options, as the parser sees it (an empty payload after the marker is
tolerated by the code, see `Rfc7252.PayloadPart` for the strict form) -/
def TailOf (tail pl : Bytes) : Prop := (tail = [] ∧ pl = []) ∨ tail = 255 :: pl

/-- (A) the parser reads every RFC option list as the options the RFC assigns to it -/
theorem optList_decodeOpts {cur : Nat} {ob : Bytes} {os : List Opt} (h : OptList cur ob os)
    {tail pl : Bytes} (ht : TailOf tail pl) : decodeOpts cur (ob ++ tail) = .ok (os, pl) := by
  induction h with
  | nil =>
    rcases ht with ⟨rfl, rfl⟩ | rfl
    · exact decodeOpts_nil _
    · exact decodeOpts_marker _ _
  | @cons prev delta dn len ln dx lx value rest v os hd hl hlen hwf hval hrest ih =>
    obtain ⟨n1, n2, n3⟩ := nibbles (extField_nib_le hd) (extField_nib_le hl)
    have hassoc : (dn * 16 + ln) :: (dx ++ lx ++ value ++ rest) ++ tail =
        (dn * 16 + ln) :: (dx ++ (lx ++ (value ++ (rest ++ tail)))) := by
      simp [List.append_assoc]
    rw [hassoc]
    have h1 : readExt ((dn * 16 + ln) / 16 % 16) (dx ++ (lx ++ (value ++ (rest ++ tail)))) =
        some (delta, lx ++ (value ++ (rest ++ tail))) := by
      rw [n1]; exact extField_readExt hd _
    have h2 : readExt ((dn * 16 + ln) % 16) (lx ++ (value ++ (rest ++ tail))) =
        some (len, value ++ (rest ++ tail)) := by
      rw [n2]; exact extField_readExt hl _
    have htake : (value ++ (rest ++ tail)).take len = value := by
      rw [← hlen]; exact take_append_len _ _
    have hdrop : (value ++ (rest ++ tail)).drop len = rest ++ tail := by
      rw [← hlen]; exact drop_append_len _ _
    rw [decodeOpts_cons_step n3 h1 h2 (by simp [← hlen])
      (by rw [htake]; exact valSpec_valDecode hval), hdrop, ih]

/-- the bytes of an RFC option list are bytes -/
theorem optList_wf {cur : Nat} {ob : Bytes} {os : List Opt} (h : OptList cur ob os) : ob.wf := by
  induction h with
  | nil => exact Bytes.wf_nil
  | cons hd hl hlen hwf hval hrest ih =>
    rw [Bytes.wf_cons]
    have := extField_nib_le hd
    have := extField_nib_le hl
    refine ⟨by omega, ?_⟩
    rw [Bytes.wf_append, Bytes.wf_append, Bytes.wf_append]
    exact ⟨⟨⟨extField_wf hd, extField_wf hl⟩, hwf⟩, ih⟩

/-- (B) the serialiser succeeds on every `OptsOK` list and its output is an RFC option list
for exactly these options -/
theorem optsOK_encodeOpts : ∀ {os : List Opt} {cur : Nat}, OptsOK cur os →
    ∃ ob, encodeOpts cur os = some ob ∧ OptList cur ob os
  | [], cur, _ => ⟨[], rfl, .nil⟩
  | ⟨num, val⟩ :: os, cur, h => by
    obtain ⟨hle, hdelta, hlegal, hlen, hrest⟩ := h
    simp only at hle hdelta hlegal hlen hrest
    obtain ⟨dn, dx, hw1⟩ := writeExt_some_of_le hdelta
    obtain ⟨ln, lx, hw2⟩ := writeExt_some_of_le hlen
    obtain ⟨rest, hr, hol⟩ := optsOK_encodeOpts hrest
    have hd := writeExt_extField hw1
    have hl := writeExt_extField hw2
    have hdn := extField_nib_le hd
    have hln := extField_nib_le hl
    refine ⟨(dn * 16 + ln) :: (dx ++ lx ++ valEncode val ++ rest), ?_, ?_⟩
    · have : ¬ num < cur := by omega
      simp only [encodeOpts, this, if_false, hw1, hw2, hr]
      have e1 : dn % 16 = dn := by omega
      have e2 : ln % 16 = ln := by omega
      rw [e1, e2]
    · have e : cur + (num - cur) = num := by omega
      have hval : ValSpec (formatOf (cur + (num - cur))) (valEncode val) val := by
        rw [e]; exact legal_valSpec hlegal
      have hol' : OptList (cur + (num - cur)) rest os := by rw [e]; exact hol
      have key := OptList.cons hd hl rfl (legal_encode_wf hlegal) hval hol'
      rw [e] at key
      exact key

/-- the serialiser is a function: its output on an `OptsOK` list is the one of (B) -/
theorem encodeOpts_optList {os : List Opt} {cur : Nat} {ob : Bytes} (hok : OptsOK cur os)
    (h : encodeOpts cur os = some ob) : OptList cur ob os := by
  obtain ⟨ob', h', hol⟩ := optsOK_encodeOpts hok
  rw [h] at h'; cases h'; exact hol

/-- (C) whatever the parser accepts splits into an RFC option list and a payload part -/
theorem decodeOpts_optList (n : Nat) : ∀ (raw : Bytes) (cur : Nat) (os : List Opt) (pl : Bytes),
    raw.length ≤ n → raw.wf → decodeOpts cur raw = .ok (os, pl) →
    ∃ ob tail, raw = ob ++ tail ∧ OptList cur ob os ∧ TailOf tail pl := by
  induction n with
  | zero =>
    intro raw cur os pl hn _ h
    have : raw = [] := List.eq_nil_of_length_eq_zero (by omega)
    subst this; rw [decodeOpts_nil] at h; cases h
    exact ⟨[], [], rfl, .nil, .inl ⟨rfl, rfl⟩⟩
  | succ n ih =>
    intro raw cur os pl hn hw h
    cases raw with
    | nil =>
      rw [decodeOpts_nil] at h; cases h
      exact ⟨[], [], rfl, .nil, .inl ⟨rfl, rfl⟩⟩
    | cons b rest =>
      rw [Bytes.wf_cons] at hw
      obtain ⟨hb, hwrest⟩ := hw
      rcases decodeOpts_cons_inv h with ⟨rfl, rfl, rfl⟩ | ⟨hne, delta, r1, len, r2, v, os', h1, h2, hl, hv, hrec, rfl⟩
      · exact ⟨[], 255 :: pl, rfl, .nil, .inr rfl⟩
      · obtain ⟨dx, rfl, hd⟩ := readExt_extField hwrest h1
        rw [Bytes.wf_append] at hwrest
        obtain ⟨lx, rfl, hlx⟩ := readExt_extField hwrest.2 h2
        have hwr2 := (Bytes.wf_append.1 hwrest.2).2
        have hlen : (r2.drop len).length ≤ n := by
          simp only [List.length_cons, List.length_append, List.length_drop] at hn ⊢
          omega
        obtain ⟨ob', tail, hsplit, hol, htail⟩ :=
          ih (r2.drop len) (cur + delta) os' pl hlen (Bytes.wf_drop _ hwr2) hrec
        refine ⟨(b / 16 % 16 * 16 + b % 16) :: (dx ++ lx ++ r2.take len ++ ob'), tail, ?_, ?_, htail⟩
        · have eb : b / 16 % 16 * 16 + b % 16 = b := by omega
          rw [eb]
          have : r2 = r2.take len ++ r2.drop len := (List.take_append_drop len r2).symm
          rw (occs := [1]) [this, hsplit]
          simp [List.append_assoc]
        · exact .cons hd hlx (by simp; omega) (Bytes.wf_take _ hwr2) (valDecode_valSpec hv) hol

/-- (D) the options the RFC assigns to an option list can always be serialised again -/
theorem optList_optsOK {cur : Nat} {ob : Bytes} {os : List Opt} (h : OptList cur ob os) :
    OptsOK cur os := by
  induction h with
  | nil => trivial
  | @cons prev delta dn len ln dx lx value rest v os hd hl hlen hwf hval hrest ih =>
    refine ⟨Nat.le_add_right _ _, ?_, valSpec_legal hval hwf, ?_, ih⟩
    · have := extField_value_le hd
      simp only; omega
    · have h1 := valSpec_encode_length_le hval hwf
      have h2 := extField_value_le hl
      simp only; omega

/-- options come out of the parser (and are required by the serialiser) in non-decreasing
number order -/
theorem optsOK_sorted : ∀ {os : List Opt} {cur : Nat}, OptsOK cur os →
    List.Pairwise (fun a b => a.num ≤ b.num) os ∧ ∀ o ∈ os, cur ≤ o.num
  | [], _, _ => ⟨.nil, fun _ h => by cases h⟩
  | o :: os, cur, h => by
    obtain ⟨hle, _, _, _, hrest⟩ := h
    obtain ⟨hp, hall⟩ := optsOK_sorted hrest
    refine ⟨List.Pairwise.cons (fun p hp' => hall p hp') hp, ?_⟩
    intro p hp'
    rcases List.mem_cons.1 hp' with rfl | hp'
    · exact hle
    · exact Nat.le_trans hle (hall p hp')

end Aiocoap.Codec
