import AiocoapModel.Apps.Rd
/-!
Helper lemmas for C20: association lists with unique keys, path allocation, what
`updateParams` / `registerReg` leave alone, and the representation invariant of the two
indexes with its preservation by the three kinds of effect (write, remove, purge).
-/
namespace Aiocoap.Rd

section Assoc
variable {κ β : Type} [DecidableEq κ]

/-- the dict has no repeated key -/
def KeysNodup (l : List (κ × β)) : Prop := (l.map (·.1)).Nodup

theorem mem_adel {k : κ} {l : List (κ × β)} {e : κ × β} : e ∈ adel k l ↔ e ∈ l ∧ e.1 ≠ k := by
  simp [adel, List.mem_filter]

theorem mem_aset {k : κ} {v : β} {l : List (κ × β)} {e : κ × β} :
    e ∈ aset k v l ↔ (e ∈ l ∧ e.1 ≠ k) ∨ e = (k, v) := by
  simp [aset, mem_adel]

omit [DecidableEq κ] in
theorem keysNodup_filter {l : List (κ × β)} (p : κ × β → Bool) (h : KeysNodup l) :
    KeysNodup (l.filter p) :=
  List.Nodup.sublist ((List.filter_sublist (l := l)).map _) h

theorem keysNodup_adel {k : κ} {l : List (κ × β)} (h : KeysNodup l) : KeysNodup (adel k l) :=
  keysNodup_filter _ h

theorem keysNodup_aset {k : κ} {v : β} {l : List (κ × β)} (h : KeysNodup l) :
    KeysNodup (aset k v l) := by
  unfold KeysNodup aset
  rw [List.map_append, List.nodup_append]
  refine ⟨keysNodup_adel h, by simp, ?_⟩
  intro a ha b hb
  simp only [List.map_cons, List.map_nil, List.mem_singleton] at hb
  subst hb
  obtain ⟨e, he, rfl⟩ := List.mem_map.mp ha
  exact (mem_adel.mp he).2

omit [DecidableEq κ] in
theorem keysNodup_unique {l : List (κ × β)} (h : KeysNodup l) {k : κ} {v v' : β}
    (h1 : (k, v) ∈ l) (h2 : (k, v') ∈ l) : v = v' := by
  induction l with
  | nil => cases h1
  | cons e l ih =>
    unfold KeysNodup at h
    rw [List.map_cons, List.nodup_cons] at h
    rcases List.mem_cons.mp h1 with rfl | h1' <;> rcases List.mem_cons.mp h2 with h2' | h2'
    · cases h2'; rfl
    · exact absurd (List.mem_map.mpr ⟨_, h2', rfl⟩) h.1
    · subst h2'; exact absurd (List.mem_map.mpr ⟨_, h1', rfl⟩) h.1
    · exact ih h.2 h1' h2'

theorem aget_some_mem {k : κ} {l : List (κ × β)} {v : β} (h : aget k l = some v) : (k, v) ∈ l := by
  induction l with
  | nil => cases h
  | cons e l ih =>
    simp only [aget] at h
    split at h
    · next hk => cases h; subst hk; exact List.mem_cons_self
    · exact List.mem_cons_of_mem _ (ih h)

theorem aget_none {k : κ} {l : List (κ × β)} (h : aget k l = none) : k ∉ l.map (·.1) := by
  induction l with
  | nil => simp
  | cons e l ih =>
    simp only [aget] at h
    split at h
    · cases h
    · next hk =>
      simp only [List.map_cons, List.mem_cons, not_or]
      exact ⟨fun h' => hk h'.symm, ih h⟩

theorem aget_of_mem {l : List (κ × β)} (h : KeysNodup l) {k : κ} {v : β} (hm : (k, v) ∈ l) :
    aget k l = some v := by
  cases hg : aget k l with
  | none => exact absurd (List.mem_map.mpr ⟨_, hm, rfl⟩) (aget_none hg)
  | some v' => rw [keysNodup_unique h (aget_some_mem hg) hm]

end Assoc

-- path allocation -----------------------------------------------------------------------------

theorem firstFree_spec (fuel : Nat) : ∀ (used : List Nat) (i : Nat), used.length ≤ fuel →
    firstFree used fuel i ∉ used ∧ i ≤ firstFree used fuel i := by
  induction fuel with
  | zero =>
    intro used i h
    have : used = [] := List.eq_nil_of_length_eq_zero (by omega)
    subst this
    simp [firstFree]
  | succ fuel ih =>
    intro used i h
    simp only [firstFree]
    split
    · next hm =>
      have hlen : (used.erase i).length ≤ fuel := by
        rw [List.length_erase_of_mem hm]; omega
      obtain ⟨h1, h2⟩ := ih (used.erase i) (i + 1) hlen
      refine ⟨?_, by omega⟩
      intro hin
      have hne : firstFree (used.erase i) fuel (i + 1) ≠ i := by omega
      exact h1 ((List.mem_erase_of_ne hne).mpr hin)
    · next hm => exact ⟨hm, Nat.le_refl _⟩

/-- `_new_pathtail` returns a location that is not in use -/
theorem newPath_not_mem (used : List Nat) : newPath used ∉ used :=
  (firstFree_spec used.length used 1 (Nat.le_refl _)).1

theorem newPath_pos (used : List Nat) : 1 ≤ newPath used :=
  (firstFree_spec used.length used 1 (Nat.le_refl _)).2

-- validation ---------------------------------------------------------------------------------

/-- A successful `update_params` leaves name, sector, location and links alone, and restarts the
lifetime at the current tick. -/
theorem updateParams_ok {now : Nat} {reg : Reg} {remote : Option Str} {q : Query} {ini : Bool}
    {r : Reg} (h : updateParams now reg remote q ini = .ok r) :
    r.ep = reg.ep ∧ r.d = reg.d ∧ r.path = reg.path ∧ r.links = reg.links ∧ r.refreshedAt = now := by
  unfold updateParams at h
  split at h
  · cases h
  · split at h
    · cases h
    · split at h
      · cases h
      · split at h
        · cases h
        · cases h; simp

/-- an accepted `lt`: absent, or given once with a value `int` reads -/
theorem ltOf_ok {vs : List Val} {o : Option Int} {dflt : Int} (h : ltOf vs = .ok o) :
    (vs = [] ∧ o.getD dflt = dflt) ∨ (∃ v, vs = [some v] ∧ parseInt v = some (o.getD dflt)) := by
  unfold ltOf at h
  match vs, h with
  | [], h => simp [popSingle] at h; subst h; exact Or.inl ⟨rfl, rfl⟩
  | [none], h => simp [popSingle] at h
  | [some v], h =>
    simp only [popSingle] at h
    split at h
    · next n hn => cases h; exact Or.inr ⟨v, rfl, by simpa using hn⟩
    · cases h
  | _ :: _ :: _, h => simp [popSingle] at h

/-- the lifetime a successful `update_params` leaves: the given one, else the old one -/
theorem updateParams_lt {now : Nat} {reg : Reg} {remote : Option Str} {q : Query} {ini : Bool}
    {r : Reg} (h : updateParams now reg remote q ini = .ok r) :
    (vals sLt q = [] ∧ r.lt = reg.lt) ∨ (∃ v, vals sLt q = [some v] ∧ parseInt v = some r.lt) := by
  unfold updateParams at h
  split at h
  · cases h
  · split at h
    · cases h
    · split at h
      · cases h
      · next setLt hlt =>
        split at h
        · cases h
        · cases h
          simp only
          exact ltOf_ok hlt

/-- an accepted `ep`: given exactly once, with a value -/
theorem epOf_ok {vs : List Val} {ep : Str} (h : epOf vs = .ok ep) : vs = [some ep] := by
  unfold epOf at h
  match vs, h with
  | [some e], h => simp [popSingle] at h; rw [h]
  | [], h => simp [popSingle] at h
  | [none], h => simp [popSingle] at h
  | _ :: _ :: _, h => simp [popSingle] at h

/-- the sector of an accepted registration: the single value of `d`; none when `d` is absent or has
no value -/
theorem dOf_ok {vs : List Val} {d : Option Str} (h : dOf vs = .ok d) :
    vs = [d] ∨ (vs = [] ∧ d = none) := by
  unfold dOf at h
  match vs, h with
  | [v], h => simp [popSingle] at h; rw [h]; exact Or.inl rfl
  | [], h => simp [popSingle] at h; exact Or.inr ⟨rfl, h.symm⟩
  | _ :: _ :: _, h => simp [popSingle] at h

/-- What an accepted registration request stores: name and sector from the query, the links of
the body, the current tick, and the location of the registration it replaces (a fresh one if
there is none). -/
theorem registerReg_ok {s : State} {remote : Option Str} {q : Query} {body : Body} {r : Reg}
    (h : registerReg s remote q body = .ok r) :
    linksOf body = .ok r.links ∧ vals sEp q = [some r.ep] ∧ dOf (vals sD q) = .ok r.d ∧
    r.refreshedAt = s.now ∧
    r.path = (match aget r.key s.byKey with
              | some old => old.path
              | none => newPath (s.byPath.map (·.1))) := by
  unfold registerReg at h
  split at h
  · cases h
  · next links hl =>
    split at h
    · cases h
    · next ep hep =>
      split at h
      · cases h
      · next d hd =>
        simp only at h
        split at h
        · cases h
        · next r0 hr0 =>
          cases h
          obtain ⟨h1, h2, h3, _, h5⟩ := updateParams_ok hr0
          simp only at h1 h2 h3 h5
          refine ⟨by simpa using hl, ?_, ?_, by simpa using h5, ?_⟩
          · simpa [h1] using epOf_ok hep
          · simpa [h2] using hd
          · simp only [Reg.key, h1, h2, h3]
            cases aget (ep, d) s.byKey <;> rfl

-- the two indexes are one map -----------------------------------------------------------------

/-- Representation invariant of `CommonRD`: `_by_key` and `_by_path` have unique keys and hold
the same registrations, each under its own key and its own path. -/
structure Inv (s : State) : Prop where
  nodupKey : KeysNodup s.byKey
  nodupPath : KeysNodup s.byPath
  keyToPath : ∀ k r, (k, r) ∈ s.byKey → k = r.key ∧ (r.path, r) ∈ s.byPath
  pathToKey : ∀ p r, (p, r) ∈ s.byPath → p = r.path ∧ (r.key, r) ∈ s.byKey

/-- no registration in the directory has a due timer -/
def AllLive (c : Cfg) (s : State) : Prop := ∀ r ∈ s.regs, r.live c s.now = true

theorem Inv.init : Inv State.init :=
  ⟨by simp [KeysNodup, State.init], by simp [KeysNodup, State.init],
   by intro k r h; simp [State.init] at h, by intro p r h; simp [State.init] at h⟩

theorem mem_regs {s : State} (hi : Inv s) {x : Reg} : x ∈ s.regs ↔ (x.key, x) ∈ s.byKey := by
  unfold State.regs
  constructor
  · intro h
    obtain ⟨e, he, rfl⟩ := List.mem_map.mp h
    have := (hi.keyToPath e.1 e.2 he).1
    rw [← this]; exact he
  · intro h; exact List.mem_map.mpr ⟨_, h, rfl⟩

/-- a write is well placed: it replaces the registration of its key at that registration's
location, or it is a new key at an unused location -/
def WriteOk (s : State) (r : Reg) : Prop :=
  (∃ o, (r.key, o) ∈ s.byKey ∧ o.path = r.path) ∨
  (r.key ∉ s.byKey.map (·.1) ∧ r.path ∉ s.byPath.map (·.1))

theorem inv_write {s : State} (hi : Inv s) {r : Reg} (hw : WriteOk s r) :
    Inv { s with byKey := aset r.key r s.byKey, byPath := aset r.path r s.byPath } := by
  refine ⟨keysNodup_aset hi.nodupKey, keysNodup_aset hi.nodupPath, ?_, ?_⟩
  · intro k x hx
    rcases mem_aset.mp hx with ⟨hm, hne⟩ | heq
    · obtain ⟨hk, hp⟩ := hi.keyToPath k x hm
      refine ⟨hk, mem_aset.mpr (Or.inl ⟨hp, ?_⟩)⟩
      intro hpe
      simp only at hpe hne
      rcases hw with ⟨o, ho, hop⟩ | ⟨_, hnp⟩
      · have hop' := (hi.keyToPath _ _ ho).2
        rw [hop, ← hpe] at hop'
        have := keysNodup_unique hi.nodupPath hp hop'
        subst this
        exact hne ((hi.keyToPath _ _ ho).1 ▸ hk)
      · exact hnp (List.mem_map.mpr ⟨_, hp, hpe⟩)
    · cases heq; exact ⟨rfl, mem_aset.mpr (Or.inr rfl)⟩
  · intro p x hx
    rcases mem_aset.mp hx with ⟨hm, hne⟩ | heq
    · obtain ⟨hp, hk⟩ := hi.pathToKey p x hm
      refine ⟨hp, mem_aset.mpr (Or.inl ⟨hk, ?_⟩)⟩
      intro hke
      simp only at hke hne
      rcases hw with ⟨o, ho, hop⟩ | ⟨hnk, _⟩
      · rw [← hke] at ho
        have := keysNodup_unique hi.nodupKey hk ho
        subst this
        exact hne (hp.trans hop)
      · exact hnk (List.mem_map.mpr ⟨_, hk, hke⟩)
    · cases heq; exact ⟨rfl, mem_aset.mpr (Or.inr rfl)⟩

theorem inv_remove {s : State} (hi : Inv s) {r : Reg} (hr : (r.path, r) ∈ s.byPath) :
    Inv { s with byPath := adel r.path s.byPath, byKey := adel r.key s.byKey } := by
  have hrk := (hi.pathToKey _ _ hr).2
  refine ⟨keysNodup_adel hi.nodupKey, keysNodup_adel hi.nodupPath, ?_, ?_⟩
  · intro k x hx
    obtain ⟨hm, hne⟩ := mem_adel.mp hx
    obtain ⟨hk, hp⟩ := hi.keyToPath k x hm
    refine ⟨hk, mem_adel.mpr ⟨hp, ?_⟩⟩
    intro hpe
    simp only at hpe hne
    rw [hpe] at hp
    have := keysNodup_unique hi.nodupPath hp hr
    subst this
    exact hne hk
  · intro p x hx
    obtain ⟨hm, hne⟩ := mem_adel.mp hx
    obtain ⟨hp, hk⟩ := hi.pathToKey p x hm
    refine ⟨hp, mem_adel.mpr ⟨hk, ?_⟩⟩
    intro hke
    simp only at hke hne
    rw [hke] at hk
    have := keysNodup_unique hi.nodupKey hk hrk
    subst this
    exact hne hp

theorem inv_filter {s : State} (hi : Inv s) (P : Reg → Bool) :
    Inv { s with byKey := s.byKey.filter (fun e => P e.2), byPath := s.byPath.filter (fun e => P e.2) } := by
  refine ⟨keysNodup_filter _ hi.nodupKey, keysNodup_filter _ hi.nodupPath, ?_, ?_⟩
  · intro k x hx
    obtain ⟨hm, hP⟩ := List.mem_filter.mp hx
    obtain ⟨hk, hp⟩ := hi.keyToPath k x hm
    exact ⟨hk, List.mem_filter.mpr ⟨hp, hP⟩⟩
  · intro p x hx
    obtain ⟨hm, hP⟩ := List.mem_filter.mp hx
    obtain ⟨hp, hk⟩ := hi.pathToKey p x hm
    exact ⟨hp, List.mem_filter.mpr ⟨hk, hP⟩⟩

/-- Under the invariant, running the `delete()` of every registration whose timer is due (by key
and by path, as the closures do) removes exactly the dead registrations from both indexes. -/
theorem purge_eq {c : Cfg} {s : State} (hi : Inv s) :
    purge c s = { s with byKey := s.byKey.filter (fun e => e.2.live c s.now),
                         byPath := s.byPath.filter (fun e => e.2.live c s.now) } := by
  unfold purge
  simp only
  congr 1
  · apply List.filter_congr
    intro e he
    have hk := (hi.keyToPath e.1 e.2 he).1
    cases hl : e.2.live c s.now
    · simp only [decide_eq_false_iff_not, Decidable.not_not]
      exact List.mem_map.mpr ⟨e.2, List.mem_filter.mpr
        ⟨List.mem_map.mpr ⟨e, he, rfl⟩, by simp [hl]⟩, hk.symm⟩
    · simp only [decide_eq_true_eq]
      intro hin
      obtain ⟨x, hx, hxk⟩ := List.mem_map.mp hin
      obtain ⟨hxr, hxd⟩ := List.mem_filter.mp hx
      have hx' := (mem_regs hi).mp hxr
      rw [hxk] at hx'
      have : x = e.2 := keysNodup_unique hi.nodupKey hx' he
      subst this
      simp [hl] at hxd
  · apply List.filter_congr
    intro e he
    obtain ⟨hp, hk⟩ := hi.pathToKey e.1 e.2 he
    cases hl : e.2.live c s.now
    · simp only [decide_eq_false_iff_not, Decidable.not_not]
      exact List.mem_map.mpr ⟨e.2, List.mem_filter.mpr
        ⟨(mem_regs hi).mpr hk, by simp [hl]⟩, hp.symm⟩
    · simp only [decide_eq_true_eq]
      intro hin
      obtain ⟨x, hx, hxp⟩ := List.mem_map.mp hin
      obtain ⟨hxr, hxd⟩ := List.mem_filter.mp hx
      have hx' := (hi.keyToPath _ _ ((mem_regs hi).mp hxr)).2
      rw [hxp] at hx'
      have : x = e.2 := keysNodup_unique hi.nodupPath hx' he
      subst this
      simp [hl] at hxd

theorem inv_purge {c : Cfg} {s : State} (hi : Inv s) : Inv (purge c s) := by
  rw [purge_eq hi]; exact inv_filter hi _

theorem purge_now (c : Cfg) (s : State) : (purge c s).now = s.now := rfl

theorem mem_regs_purge {c : Cfg} {s : State} (hi : Inv s) {x : Reg} :
    x ∈ (purge c s).regs ↔ x ∈ s.regs ∧ x.live c s.now = true := by
  rw [purge_eq hi]
  simp only [State.regs, List.mem_map, List.mem_filter]
  constructor
  · rintro ⟨e, ⟨he, hl⟩, rfl⟩; exact ⟨⟨e, he, rfl⟩, hl⟩
  · rintro ⟨⟨e, he, rfl⟩, hl⟩; exact ⟨e, ⟨he, hl⟩, rfl⟩

theorem allLive_purge {c : Cfg} {s : State} (hi : Inv s) : AllLive c (purge c s) := by
  intro x hx
  rw [purge_now]
  exact ((mem_regs_purge hi).mp hx).2

-- what a request does to the directory --------------------------------------------------------

/-- The effect of one request on the abstract map `(ep, d) ↦ registration`. -/
inductive Effect
  | wrote (r : Reg)       -- a registration / update was accepted; `r` is what is now stored
  | removed (k : Key)     -- the registration of `k` was deleted on request
  | none                  -- refused, a read, a lookup, or time passing
deriving Repr, DecidableEq

def Action.effect : Action → Effect
  | .write r _ => .wrote r
  | .remove r => .removed r.key
  | _ => .none

/-- the effect concerns the registration of `k` -/
def Effect.touches (e : Effect) (k : Key) : Bool :=
  match e with
  | .wrote r => decide (r.key = k)
  | .removed k' => decide (k' = k)
  | .none => false

theorem decideOp_write {s : State} {op : Op} {r : Reg} {resp : Resp} (hi : Inv s)
    (h : decideOp s op = .write r resp) :
    WriteOk s r ∧ r.refreshedAt = s.now ∧ (resp = .created r.path ∨ resp = .changed) := by
  cases op with
  | register remote q body =>
    simp only [decideOp] at h
    split at h
    · cases h
    · next r' hr' =>
      cases h
      obtain ⟨_, _, _, hnow, hpath⟩ := registerReg_ok hr'
      refine ⟨?_, hnow, Or.inl rfl⟩
      cases hg : aget r.key s.byKey with
      | some old =>
        rw [hg] at hpath
        exact Or.inl ⟨old, aget_some_mem hg, hpath.symm⟩
      | none =>
        rw [hg] at hpath
        exact Or.inr ⟨aget_none hg, by rw [hpath]; exact newPath_not_mem _⟩
  | update path remote q body =>
    simp only [decideOp] at h
    split at h
    · cases h
    · next reg hreg =>
      split at h
      · cases h
      · split at h
        · cases h
        · next r' hr' =>
          cases h
          obtain ⟨h1, h2, h3, _, h5⟩ := updateParams_ok hr'
          obtain ⟨hp, hk⟩ := hi.pathToKey _ _ (aget_some_mem hreg)
          refine ⟨Or.inl ⟨reg, ?_, h3.symm⟩, h5, Or.inr rfl⟩
          have : r.key = reg.key := by simp [Reg.key, h1, h2]
          rw [this]; exact hk
  | put path remote q body =>
    simp only [decideOp] at h
    split at h
    · cases h
    · next reg hreg =>
      split at h
      · cases h
      · split at h
        · cases h
        · next r' hr' =>
          cases h
          obtain ⟨h1, h2, h3, _, h5⟩ := updateParams_ok hr'
          obtain ⟨hp, hk⟩ := hi.pathToKey _ _ (aget_some_mem hreg)
          refine ⟨Or.inl ⟨reg, ?_, by simpa using h3.symm⟩, by simpa using h5, Or.inr rfl⟩
          show (Reg.key _, reg) ∈ s.byKey
          simp only [Reg.key, h1, h2]; exact hk
  | delete path => simp only [decideOp] at h; split at h <;> cases h
  | read path => simp only [decideOp] at h; split at h <;> cases h
  | advance dt => simp [decideOp] at h
  | lookupEp q => simp only [decideOp] at h; split at h <;> cases h
  | lookupRes q => simp only [decideOp] at h; split at h <;> cases h

theorem decideOp_remove {s : State} {op : Op} {r : Reg} (hi : Inv s)
    (h : decideOp s op = .remove r) : (r.path, r) ∈ s.byPath := by
  cases op with
  | delete path =>
    simp only [decideOp] at h
    split at h
    · cases h
    · next reg hreg =>
      cases h
      have hm := aget_some_mem hreg
      rw [(hi.pathToKey _ _ hm).1] at hm
      exact hm
  | register remote q body => simp only [decideOp] at h; split at h <;> cases h
  | update path remote q body =>
    simp only [decideOp] at h
    repeat (split at h <;> try cases h)
  | put path remote q body =>
    simp only [decideOp] at h
    repeat (split at h <;> try cases h)
  | read path => simp only [decideOp] at h; split at h <;> cases h
  | advance dt => simp [decideOp] at h
  | lookupEp q => simp only [decideOp] at h; split at h <;> cases h
  | lookupRes q => simp only [decideOp] at h; split at h <;> cases h

-- one step -----------------------------------------------------------------------------------------

theorem step_inv {c : Cfg} {s : State} (op : Op) (hi : Inv s) : Inv (step c s op).1 := by
  unfold step
  cases h : decideOp s op with
  | fail code => exact hi
  | write r resp => exact inv_purge (inv_write hi (decideOp_write hi h).1)
  | remove r => exact inv_remove hi (decideOp_remove hi h)
  | reply resp => exact hi
  | tick dt =>
    exact inv_purge (s := { s with now := s.now + dt })
      ⟨hi.nodupKey, hi.nodupPath, hi.keyToPath, hi.pathToKey⟩

theorem step_allLive {c : Cfg} {s : State} (op : Op) (hi : Inv s) (hl : AllLive c s) :
    AllLive c (step c s op).1 := by
  unfold step
  cases h : decideOp s op with
  | fail code => exact hl
  | write r resp => exact allLive_purge (inv_write hi (decideOp_write hi h).1)
  | remove r =>
    intro x hx
    simp only [applyAction, State.regs, List.mem_map] at hx ⊢
    obtain ⟨e, he, rfl⟩ := hx
    exact hl _ (List.mem_map.mpr ⟨e, (mem_adel.mp he).1, rfl⟩)
  | reply resp => exact hl
  | tick dt =>
    exact allLive_purge (s := { s with now := s.now + dt })
      ⟨hi.nodupKey, hi.nodupPath, hi.keyToPath, hi.pathToKey⟩

theorem step_now_le (c : Cfg) (s : State) (op : Op) : s.now ≤ (step c s op).1.now := by
  unfold step
  cases decideOp s op <;> simp [applyAction, purge_now]

/-- liveness is antitone in time: a registration alive later was alive earlier -/
theorem live_mono {c : Cfg} {x : Reg} {t t' : Nat} (h : t ≤ t') (hl : x.live c t' = true) :
    x.live c t = true := by
  simp only [Reg.live, decide_eq_true_eq] at hl ⊢
  omega

/-- **Refinement step.**  After any request, the registrations in the directory are exactly:
the one just written, and the old ones whose key the request did not touch — in both cases only
if their timer is not due. -/
theorem step_mem {c : Cfg} {s : State} (op : Op) (hi : Inv s) (hl : AllLive c s) (x : Reg) :
    x ∈ (step c s op).1.regs ↔
      x.live c (step c s op).1.now = true ∧
      ((decideOp s op).effect = .wrote x ∨
        (x ∈ s.regs ∧ (decideOp s op).effect.touches x.key = false)) := by
  unfold step
  cases h : decideOp s op with
  | fail code =>
    simp only [applyAction, Action.effect, Effect.touches]
    exact ⟨fun hx => ⟨hl x hx, Or.inr ⟨hx, trivial⟩⟩, fun ⟨_, hx⟩ => by simpa using hx⟩
  | reply resp =>
    simp only [applyAction, Action.effect, Effect.touches]
    exact ⟨fun hx => ⟨hl x hx, Or.inr ⟨hx, trivial⟩⟩, fun ⟨_, hx⟩ => by simpa using hx⟩
  | write r resp =>
    have hi1 := inv_write hi (decideOp_write hi h).1
    simp only [applyAction, Action.effect, Effect.touches, purge_now]
    rw [mem_regs_purge hi1, mem_regs hi1]
    simp only [mem_aset, Prod.mk.injEq, Effect.wrote.injEq, decide_eq_false_iff_not]
    rw [mem_regs hi]
    constructor
    · rintro ⟨(⟨hm, hne⟩ | ⟨_, rfl⟩), hlv⟩
      · exact ⟨hlv, Or.inr ⟨hm, fun e => hne e.symm⟩⟩
      · exact ⟨hlv, Or.inl rfl⟩
    · rintro ⟨hlv, (rfl | ⟨hm, hne⟩)⟩
      · exact ⟨Or.inr ⟨rfl, rfl⟩, hlv⟩
      · exact ⟨Or.inl ⟨hm, fun e => hne e.symm⟩, hlv⟩
  | remove r =>
    have hi1 := inv_remove hi (decideOp_remove hi h)
    simp only [applyAction, Action.effect, Effect.touches]
    rw [mem_regs hi1, mem_regs hi]
    simp only [mem_adel, decide_eq_false_iff_not, reduceCtorEq, false_or]
    constructor
    · rintro ⟨hm, hne⟩
      exact ⟨hl x ((mem_regs hi).mpr hm), hm, fun e => hne e.symm⟩
    · rintro ⟨_, hm, hne⟩
      exact ⟨hm, fun e => hne e.symm⟩
  | tick dt =>
    have hi1 : Inv { s with now := s.now + dt } :=
      ⟨hi.nodupKey, hi.nodupPath, hi.keyToPath, hi.pathToKey⟩
    simp only [applyAction, Action.effect, Effect.touches, purge_now]
    rw [mem_regs_purge hi1]
    simp only [State.regs, reduceCtorEq, false_or, and_true]
    exact ⟨fun ⟨a, b⟩ => ⟨b, a⟩, fun ⟨a, b⟩ => ⟨b, a⟩⟩

-- whole histories ------------------------------------------------------------------------------------

/-- the directory after a history -/
def finalState (c : Cfg) (s : State) (ops : List Op) : State := (run c s ops).1

/-- the responses of a history -/
def responses (c : Cfg) (s : State) (ops : List Op) : List Resp := (run c s ops).2

/-- the effect of every request of a history, in order -/
def effects (c : Cfg) (s : State) : List Op → List Effect
  | [] => []
  | op :: ops => (decideOp s op).effect :: effects c (step c s op).1 ops

/-- `x` was written by some request of the history and nothing later touched its key: no later
accepted registration or update of that endpoint name and sector, no removal on request. -/
def LatestWrite (es : List Effect) (x : Reg) : Prop :=
  ∃ pre post, es = pre ++ .wrote x :: post ∧ ∀ e ∈ post, e.touches x.key = false

theorem finalState_nil (c : Cfg) (s : State) : finalState c s [] = s := rfl

theorem finalState_cons (c : Cfg) (s : State) (op : Op) (ops : List Op) :
    finalState c s (op :: ops) = finalState c (step c s op).1 ops := rfl

theorem latestWrite_cons {e : Effect} {es : List Effect} {x : Reg} :
    LatestWrite (e :: es) x ↔
      (e = .wrote x ∧ ∀ e' ∈ es, e'.touches x.key = false) ∨ LatestWrite es x := by
  constructor
  · rintro ⟨pre, post, heq, hpost⟩
    cases pre with
    | nil =>
      simp only [List.nil_append, List.cons.injEq] at heq
      obtain ⟨rfl, rfl⟩ := heq
      exact Or.inl ⟨rfl, hpost⟩
    | cons p pre =>
      simp only [List.cons_append, List.cons.injEq] at heq
      exact Or.inr ⟨pre, post, heq.2, hpost⟩
  · rintro (⟨rfl, h⟩ | ⟨pre, post, rfl, hpost⟩)
    · exact ⟨[], es, rfl, h⟩
    · exact ⟨e :: pre, post, rfl, hpost⟩

theorem finalState_inv {c : Cfg} {s : State} (hi : Inv s) (ops : List Op) :
    Inv (finalState c s ops) := by
  induction ops generalizing s with
  | nil => exact hi
  | cons op ops ih => rw [finalState_cons]; exact ih (step_inv op hi)

theorem finalState_allLive {c : Cfg} {s : State} (hi : Inv s) (hl : AllLive c s) (ops : List Op) :
    AllLive c (finalState c s ops) := by
  induction ops generalizing s with
  | nil => exact hl
  | cons op ops ih => rw [finalState_cons]; exact ih (step_inv op hi) (step_allLive op hi hl)

theorem finalState_now_le (c : Cfg) (s : State) (ops : List Op) :
    s.now ≤ (finalState c s ops).now := by
  induction ops generalizing s with
  | nil => exact Nat.le_refl _
  | cons op ops ih =>
    rw [finalState_cons]
    exact Nat.le_trans (step_now_le c s op) (ih _)

/-- **Refinement over histories**, from any consistent start state. -/
theorem finalState_mem {c : Cfg} {s : State} (hi : Inv s) (hl : AllLive c s) (ops : List Op)
    (x : Reg) :
    x ∈ (finalState c s ops).regs ↔
      x.live c (finalState c s ops).now = true ∧
      (LatestWrite (effects c s ops) x ∨
        (x ∈ s.regs ∧ ∀ e ∈ effects c s ops, e.touches x.key = false)) := by
  induction ops generalizing s with
  | nil =>
    simp only [finalState_nil, effects, List.not_mem_nil, false_imp_iff, implies_true, and_true]
    constructor
    · intro hx; exact ⟨hl x hx, Or.inr hx⟩
    · rintro ⟨_, (⟨pre, post, heq, _⟩ | hx)⟩
      · cases pre <;> cases heq
      · exact hx
  | cons op ops ih =>
    rw [finalState_cons, ih (step_inv op hi) (step_allLive op hi hl)]
    simp only [effects, latestWrite_cons, List.mem_cons, forall_eq_or_imp]
    rw [step_mem op hi hl x]
    have hmono : x.live c (finalState c (step c s op).1 ops).now = true →
        x.live c (step c s op).1.now = true :=
      live_mono (finalState_now_le c _ ops)
    constructor
    · rintro ⟨hlv, (h | ⟨⟨_, (h | ⟨hx, ht⟩)⟩, hno⟩)⟩
      · exact ⟨hlv, Or.inl (Or.inr h)⟩
      · exact ⟨hlv, Or.inl (Or.inl ⟨h, hno⟩)⟩
      · exact ⟨hlv, Or.inr ⟨hx, ht, hno⟩⟩
    · rintro ⟨hlv, ((⟨h, hno⟩ | h) | ⟨hx, ht, hno⟩)⟩
      · exact ⟨hlv, Or.inr ⟨⟨hmono hlv, Or.inl h⟩, hno⟩⟩
      · exact ⟨hlv, Or.inl h⟩
      · exact ⟨hlv, Or.inr ⟨⟨hmono hlv, Or.inr ⟨hx, ht⟩⟩, hno⟩⟩

-- small facts used by the property theorems ----------------------------------------------------------

theorem vals_filter {k : Str} {q : Query} {p : Str × Val → Bool}
    (h : ∀ e : Str × Val, e.1 = k → p e = true) : vals k (q.filter p) = vals k q := by
  unfold vals
  rw [List.filter_filter]
  congr 1
  apply List.filter_congr
  intro e _
  by_cases hk : e.1 = k
  · simp [hk, h e hk]
  · simp [hk]

/-- the parameters a successful `update_params` leaves -/
theorem updateParams_params {now : Nat} {reg : Reg} {remote : Option Str} {q : Query} {ini : Bool}
    {r : Reg} (h : updateParams now reg remote q ini = .ok r) :
    r.params = mergeParams reg.params (q.filter (fun e => decide (e.1 ≠ sLt ∧ e.1 ≠ sBase))) := by
  unfold updateParams at h
  split at h
  · cases h
  · split at h
    · cases h
    · split at h
      · cases h
      · split at h
        · cases h
        · cases h; rfl

/-- a write is always answered 2.01 (with the location) or 2.04 -/
theorem decideOp_write_resp {s : State} {op : Op} {r : Reg} {resp : Resp}
    (h : decideOp s op = .write r resp) : resp = .created r.path ∨ resp = .changed := by
  cases op with
  | register remote q body =>
    simp only [decideOp] at h
    split at h
    · cases h
    · cases h; exact Or.inl rfl
  | update path remote q body =>
    simp only [decideOp] at h
    split at h
    · cases h
    · split at h
      · cases h
      · split at h
        · cases h
        · cases h; exact Or.inr rfl
  | put path remote q body =>
    simp only [decideOp] at h
    split at h
    · cases h
    · split at h
      · cases h
      · split at h
        · cases h
        · cases h; exact Or.inr rfl
  | delete path => simp only [decideOp] at h; split at h <;> cases h
  | read path => simp only [decideOp] at h; split at h <;> cases h
  | advance dt => simp [decideOp] at h
  | lookupEp q => simp only [decideOp] at h; split at h <;> cases h
  | lookupRes q => simp only [decideOp] at h; split at h <;> cases h

/-- a read-only answer is a registration payload or a lookup result -/
theorem decideOp_reply {s : State} {op : Op} {resp : Resp} (h : decideOp s op = .reply resp) :
    (∃ ls, resp = .regLinks ls) ∨ (∃ rs, resp = .endpoints rs) ∨ (∃ ls, resp = .resources ls) := by
  cases op with
  | register remote q body => simp only [decideOp] at h; split at h <;> cases h
  | update path remote q body =>
    simp only [decideOp] at h
    repeat (split at h <;> try cases h)
  | put path remote q body =>
    simp only [decideOp] at h
    repeat (split at h <;> try cases h)
  | delete path => simp only [decideOp] at h; split at h <;> cases h
  | read path =>
    simp only [decideOp] at h
    split at h
    · cases h
    · cases h; exact Or.inl ⟨_, rfl⟩
  | advance dt => simp [decideOp] at h
  | lookupEp q =>
    simp only [decideOp] at h
    split at h
    · cases h
    · cases h; exact Or.inr (Or.inl ⟨_, rfl⟩)
  | lookupRes q =>
    simp only [decideOp] at h
    split at h
    · cases h
    · cases h; exact Or.inr (Or.inr ⟨_, rfl⟩)

-- round 4: options without a value, bases `urlsplit` refuses ------------------------------------------

/-- an accepted `base` has a value and passed the `urlsplit` check -/
theorem baseOf_ok {vs : List Val} {b : Str} (h : baseOf vs = .ok (some b)) :
    vs = [some b] ∧ urlsplitOk b = true := by
  unfold baseOf at h
  match vs, h with
  | [], h => simp [popSingle] at h
  | [none], h => simp [popSingle] at h
  | [some v], h =>
    simp only [popSingle] at h
    split at h
    · next hv => cases h; exact ⟨rfl, by simp at hv; exact hv.1⟩
    · cases h
  | _ :: _ :: _, h => simp [popSingle] at h

/-- … and holds no `>` -/
theorem baseOf_noGt {vs : List Val} {b : Str} (h : baseOf vs = .ok (some b)) :
    b.contains 62 = false := by
  unfold baseOf at h
  match vs, h with
  | [], h => simp [popSingle] at h
  | [none], h => simp [popSingle] at h
  | [some v], h =>
    simp only [popSingle] at h
    split at h
    · next hv => cases h; simp at hv; simpa using hv.2
    · cases h
  | _ :: _ :: _, h => simp [popSingle] at h

/-- `update_params` never succeeds on a query whose `lt` has no value … -/
theorem updateParams_valueless_lt {now : Nat} {reg : Reg} {remote : Option Str} {q : Query}
    {ini : Bool} (h : vals sLt q = [none]) : ∃ e, updateParams now reg remote q ini = .error e := by
  unfold updateParams
  split
  · exact ⟨_, rfl⟩
  · split
    · exact ⟨_, rfl⟩
    · simp [h, ltOf, popSingle]

/-- … or whose `base` has no value, or one `urlsplit` refuses -/
theorem updateParams_bad_base {now : Nat} {reg : Reg} {remote : Option Str} {q : Query}
    {ini : Bool} (h : vals sBase q = [none] ∨ ∃ b, vals sBase q = [some b] ∧ urlsplitOk b = false) :
    ∃ e, updateParams now reg remote q ini = .error e := by
  unfold updateParams
  split
  · exact ⟨_, rfl⟩
  · split
    · exact ⟨_, rfl⟩
    · split
      · exact ⟨_, rfl⟩
      · rcases h with h | ⟨b, h, hb⟩
        · simp [h, baseOf, popSingle]
        · simp [h, baseOf, popSingle, hb]

/-- … or that has a parameter whose name is no link-format parmname (audit-F fix) -/
theorem updateParams_bad_name {now : Nat} {reg : Reg} {remote : Option Str} {q : Query}
    {ini : Bool} (h : ∃ e ∈ q, parmnameOk e.1 = false) :
    ∃ e, updateParams now reg remote q ini = .error e := by
  obtain ⟨e, he, hn⟩ := h
  have : q.any (fun e => !parmnameOk e.1) = true := List.any_eq_true.mpr ⟨e, he, by simp [hn]⟩
  unfold updateParams
  simp [this]

/-- … or whose `base` holds a `>` (audit-F fix) -/
theorem updateParams_gt_base {now : Nat} {reg : Reg} {remote : Option Str} {q : Query}
    {ini : Bool} (h : ∃ b, vals sBase q = [some b] ∧ b.contains 62 = true) :
    ∃ e, updateParams now reg remote q ini = .error e := by
  unfold updateParams
  split
  · exact ⟨_, rfl⟩
  · split
    · exact ⟨_, rfl⟩
    · split
      · exact ⟨_, rfl⟩
      · obtain ⟨b, h, hb⟩ := h
        have hm : 62 ∈ b := by simpa using hb
        simp [h, baseOf, popSingle, hm]

/-- an explicit base in a registration is one `urlsplit` accepts, if that held before -/
theorem updateParams_base {now : Nat} {reg : Reg} {remote : Option Str} {q : Query} {ini : Bool}
    {r : Reg} (h : updateParams now reg remote q ini = .ok r)
    (hreg : reg.baseExplicit = true → urlsplitOk reg.base = true) :
    r.baseExplicit = true → urlsplitOk r.base = true := by
  unfold updateParams at h
  split at h
  · cases h
  · split at h
    · cases h
    · split at h
      · cases h
      · split at h
        · cases h
        · next setBase hb =>
          cases h
          simp only
          cases setBase with
          | some b => intro _; exact (baseOf_ok hb).2
          | none =>
            simp only [Option.isSome_none, Bool.false_or]
            intro he
            simp [he, hreg he]

/-- an accepted registration request went through `update_params` with the options other than
`ep` and `d` -/
theorem registerReg_ok_updateParams {s : State} {remote : Option Str} {q : Query} {body : Body}
    {r : Reg} (h : registerReg s remote q body = .ok r) :
    ∃ fresh r0, updateParams s.now fresh remote
      (q.filter (fun e => decide (e.1 ≠ sEp ∧ e.1 ≠ sD))) true = .ok r0 := by
  unfold registerReg at h
  split at h
  · cases h
  · split at h
    · cases h
    · split at h
      · cases h
      · simp only at h
        split at h
        · cases h
        · next r0 hr0 => exact ⟨_, r0, hr0⟩

/-- every explicit base in the directory is one `urlsplit` accepts -/
def BasesOk (s : State) : Prop := ∀ r ∈ s.regs, r.baseExplicit = true → urlsplitOk r.base = true

theorem decideOp_write_base {s : State} {op : Op} {r : Reg} {resp : Resp} (hi : Inv s)
    (hb : BasesOk s) (h : decideOp s op = .write r resp) :
    r.baseExplicit = true → urlsplitOk r.base = true := by
  cases op with
  | register remote q body =>
    simp only [decideOp] at h
    split at h
    · cases h
    · next r' hr' =>
      cases h
      unfold registerReg at hr'
      split at hr'
      · cases hr'
      · split at hr'
        · cases hr'
        · split at hr'
          · cases hr'
          · simp only at hr'
            split at hr'
            · cases hr'
            · next r0 hr0 =>
              cases hr'
              exact updateParams_base (r := r0) hr0 (by intro h; cases h)
  | update path remote q body =>
    simp only [decideOp] at h
    split at h
    · cases h
    · next reg hreg =>
      split at h
      · cases h
      · split at h
        · cases h
        · next r' hr' =>
          cases h
          have hm := (hi.pathToKey _ _ (aget_some_mem hreg)).2
          exact updateParams_base hr' (hb reg ((mem_regs hi).mpr hm))
  | put path remote q body =>
    simp only [decideOp] at h
    split at h
    · cases h
    · next reg hreg =>
      split at h
      · cases h
      · split at h
        · cases h
        · next r' hr' =>
          cases h
          have hm := (hi.pathToKey _ _ (aget_some_mem hreg)).2
          exact updateParams_base (r := r') hr' (hb reg ((mem_regs hi).mpr hm))
  | delete path => simp only [decideOp] at h; split at h <;> cases h
  | read path => simp only [decideOp] at h; split at h <;> cases h
  | advance dt => simp [decideOp] at h
  | lookupEp q => simp only [decideOp] at h; split at h <;> cases h
  | lookupRes q => simp only [decideOp] at h; split at h <;> cases h

theorem step_basesOk {c : Cfg} {s : State} (op : Op) (hi : Inv s) (hl : AllLive c s)
    (hb : BasesOk s) : BasesOk (step c s op).1 := by
  intro x hx
  rcases ((step_mem op hi hl x).mp hx).2 with hw | ⟨hm, _⟩
  · cases hd : decideOp s op <;> simp [hd, Action.effect] at hw
    subst hw
    exact decideOp_write_base hi hb hd
  · exact hb x hm

theorem finalState_basesOk {c : Cfg} {s : State} (hi : Inv s) (hl : AllLive c s) (hb : BasesOk s)
    (ops : List Op) : BasesOk (finalState c s ops) := by
  induction ops generalizing s with
  | nil => exact hb
  | cons op ops ih =>
    rw [finalState_cons]
    exact ih (step_inv op hi) (step_allLive op hi hl) (step_basesOk op hi hl hb)

-- the abstract specification: a finite map (ep, d) ↦ registration ---------------------------------------

/-- One step of the specification.  The directory is a plain collection of registrations read as
a finite map by `Reg.key`: a write replaces the entry of its key, a removal drops it, and whatever
is past its lifetime plus grace at the new time is gone. -/
def specStep (c : Cfg) (m : List Reg) (e : Effect) (now' : Nat) : List Reg :=
  (match e with
   | .wrote r => m.filter (fun (x : Reg) => decide (x.key ≠ r.key)) ++ [r]
   | .removed k => m.filter (fun (x : Reg) => decide (x.key ≠ k))
   | .none => m).filter (fun x => x.live c now')

def specRun (c : Cfg) (m : List Reg) : List (Effect × Nat) → List Reg
  | [] => m
  | t :: ts => specRun c (specStep c m t.1 t.2) ts

/-- what the specification is told about a history: per request its effect and the time after it -/
def trace (c : Cfg) (s : State) : List Op → List (Effect × Nat)
  | [] => []
  | op :: ops => ((decideOp s op).effect, (step c s op).1.now) :: trace c (step c s op).1 ops

theorem mem_specStep {c : Cfg} {m : List Reg} {e : Effect} {t : Nat} {x : Reg} :
    x ∈ specStep c m e t ↔
      x.live c t = true ∧ (e = .wrote x ∨ (x ∈ m ∧ e.touches x.key = false)) := by
  unfold specStep
  cases e with
  | wrote r =>
    simp only [List.mem_filter, List.mem_append, List.mem_singleton, Effect.touches,
      Effect.wrote.injEq, decide_eq_true_eq, decide_eq_false_iff_not]
    constructor
    · rintro ⟨(⟨hm, hne⟩ | rfl), hl⟩
      · exact ⟨hl, Or.inr ⟨hm, fun e => hne e.symm⟩⟩
      · exact ⟨hl, Or.inl rfl⟩
    · rintro ⟨hl, (rfl | ⟨hm, hne⟩)⟩
      · exact ⟨Or.inr rfl, hl⟩
      · exact ⟨Or.inl ⟨hm, fun e => hne e.symm⟩, hl⟩
  | removed k =>
    simp only [List.mem_filter, Effect.touches, reduceCtorEq, false_or, decide_eq_true_eq,
      decide_eq_false_iff_not]
    constructor
    · rintro ⟨⟨hm, hne⟩, hl⟩; exact ⟨hl, hm, fun e => hne e.symm⟩
    · rintro ⟨hl, hm, hne⟩; exact ⟨⟨hm, fun e => hne e.symm⟩, hl⟩
  | none =>
    simp only [List.mem_filter, Effect.touches, reduceCtorEq, false_or, and_true]
    exact ⟨fun ⟨a, b⟩ => ⟨b, a⟩, fun ⟨a, b⟩ => ⟨b, a⟩⟩

theorem finalState_refines {c : Cfg} {s : State} (hi : Inv s) (hl : AllLive c s) (ops : List Op)
    (m : List Reg) (hm : ∀ x, x ∈ s.regs ↔ x ∈ m) (x : Reg) :
    x ∈ (finalState c s ops).regs ↔ x ∈ specRun c m (trace c s ops) := by
  induction ops generalizing s m with
  | nil => exact hm x
  | cons op ops ih =>
    rw [finalState_cons]
    simp only [trace, specRun]
    apply ih (step_inv op hi) (step_allLive op hi hl)
    intro y
    rw [step_mem op hi hl y, mem_specStep, hm y]

end Aiocoap.Rd
