import Proofs.Apps.FileServer
import AiocoapModel.Apps.FileServerHistory
/-! Helper lemmas about the file server over time (`Server.step`) and the command-line model. -/
namespace Aiocoap.FileServer

-- ------------------------------------------------------------------ the answer ignores the table --

theorem renderGetAt_resp_obs (cfg : Config) (req : Request) (w : World) (p : PPath) (b : Bool) :
    (renderGetAt cfg req { w with obsPending := b } p).resp = (renderGetAt cfg req w p).resp := by
  unfold renderGetAt
  cases w.stat <;> simp only [] <;> (repeat' split) <;> rfl

/-- `_observations` only decides whether `render_get_file` does one more `stat`: the response is the
same whatever the table holds. -/
theorem handle_resp_obs (cfg : Config) (req : Request) (w : World) (b : Bool) :
    (handle cfg req { w with obsPending := b }).resp = (handle cfg req w).resp := by
  unfold handle
  cases req.method <;> simp only []
  · unfold renderGet
    split
    · rfl
    · split
      · rfl
      · exact renderGetAt_resp_obs _ _ _ _ _
  · rfl
  · rfl

theorem wf_obs {w : World} (b : Bool) (h : w.wf) : World.wf { w with obsPending := b } := h

-- ------------------------------------------------------------------ one step -----------------------

theorem step_cfg (s : Server) (ev : Event) : (s.step ev).1.cfg = s.cfg := by
  cases ev with
  | request req w => simp only [Server.step]; split <;> rfl
  | observe path => simp only [Server.step]; split <;> rfl
  | tick gone => simp only [Server.step]; split <;> rfl

theorem step_request_resp (s : Server) (req : Request) (w : World) :
    (s.step (.request req w)).2.resp = some (handle s.cfg req w).resp := by
  simp only [Server.step]
  split
  · rfl
  · simp [handle_resp_obs]

theorem run_cfg (s : Server) (evs : List Event) : (s.run evs).1.cfg = s.cfg := by
  induction evs generalizing s with
  | nil => rfl
  | cons ev evs ih => simp only [Server.run]; rw [ih, step_cfg]

-- ------------------------------------------------------------------ the table stays inside ---------

/-- every key of `_observations` is inside the root -/
def TableInside (root : PPath) (t : ObsTable) : Prop := ∀ e ∈ t, Inside root e.path

theorem TableInside.register {root : PPath} {t : ObsTable} (h : TableInside root t) {p : PPath}
    (hp : Inside root p) : TableInside root (t.register p) := by
  unfold ObsTable.register
  split
  · exact h
  · intro e he
    rcases List.mem_append.mp he with he | he
    · exact h e he
    · simp only [List.mem_singleton] at he; subst he; exact hp

theorem TableInside.refreshed {root : PPath} {t : ObsTable} (h : TableInside root t) (p : PPath) :
    TableInside root (t.refreshed p) := by
  intro e he
  obtain ⟨e0, he0, rfl⟩ := List.mem_map.mp he
  split
  · exact h e0 he0
  · exact h e0 he0

theorem watched_inside {root : PPath} {t : ObsTable} (h : TableInside root t) :
    ∀ p ∈ t.watched, Inside root p := by
  intro p hp
  obtain ⟨e, he, rfl⟩ := List.mem_map.mp hp
  exact h e (List.mem_filter.mp he).1

theorem tickRound_ops (gone ps : List PPath) :
    ∀ op ∈ (tickRound gone ps).1, ∃ p ∈ ps, op = .stat p := by
  induction ps with
  | nil => intro op h; simp [tickRound] at h
  | cons p ps ih =>
    intro op h
    unfold tickRound at h
    split at h
    · simp only [List.mem_singleton] at h; exact ⟨p, by simp, h⟩
    · rcases List.mem_cons.mp h with h | h
      · exact ⟨p, by simp, h⟩
      · obtain ⟨q, hq, e⟩ := ih op h
        exact ⟨q, List.mem_cons_of_mem _ hq, e⟩

/-- the operating system's answers inside an event are well formed (`World.wf`) -/
def Event.wf : Event → Prop
  | .request _ w => w.wf
  | _ => True

theorem tick_ops_inside {root : PPath} {t : ObsTable} (h : TableInside root t) (gone : List PPath) :
    AllInside root (tickRound gone t.watched).1 := by
  intro op ho q hq
  obtain ⟨p, hp, rfl⟩ := tickRound_ops gone _ op ho
  simp only [FsOp.paths, List.mem_singleton] at hq
  rw [hq]
  exact watched_inside h p hp

theorem tick_ops_nonmodifying (gone ps : List PPath) :
    NoneModifying (tickRound gone ps).1 := by
  intro op ho
  obtain ⟨q, _, rfl⟩ := tickRound_ops gone ps op ho
  rfl

/-- A client stepping through a file on a server whose table moves on sees what `handle` answers. -/
theorem fetch_eq_fetchLoop (req : Request) (w : World) (szx : Nat) : ∀ fuel k (s : Server),
    Server.fetch req w szx fuel k s
      = fetchLoop (fun k => (handle s.cfg { req with block2 := some (k, szx) } w).resp) fuel k := by
  intro fuel
  induction fuel with
  | zero => intro k s; rfl
  | succ fuel ih =>
    intro k s
    simp only [Server.fetch, fetchLoop, step_request_resp]
    rw [ih, step_cfg]

-- ------------------------------------------------------------------ command line -------------------

/-- the write flag of the parsed namespace is set only by a `--write` token -/
theorem parseArgv_write (o o' : CliOpts) (argv : List Str) (h : parseArgv o argv = .ok o')
    (hw : o'.write = true) : o.write = true ∨ tokWrite ∈ argv := by
  fun_induction parseArgv o argv <;> (try (cases h; done))
  all_goals first
    | (simp only [CliResult.ok.injEq] at h; subst h; exact Or.inl hw)
    | exact Or.inr List.mem_cons_self
    | (rename_i ih
       rcases ih h with h1 | h1
       · exact Or.inl h1
       · first
         | exact Or.inr (List.mem_cons_of_mem _ h1)
         | exact Or.inr (List.mem_cons_of_mem _ (List.mem_cons_of_mem _ h1)))

end Aiocoap.FileServer
