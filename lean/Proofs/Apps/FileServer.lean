import AiocoapModel.Apps.FileServer
/-! Helper lemmas about the file-server model: `split`/`join` on `/`, the pathlib join, and the
shape of accepted component lists. -/
namespace Aiocoap.FileServer

-- ------------------------------------------------------------------ split / join ----

theorem splitSlash_ne_nil (s : Str) : splitSlash s ≠ [] := by
  cases s with
  | nil => simp [splitSlash]
  | cons c cs =>
    rw [splitSlash]
    split
    · simp
    · cases splitSlash cs <;> simp [consHead]

theorem splitSlash_append_slash (a b : Str) :
    splitSlash (a ++ slash :: b) = splitSlash a ++ splitSlash b := by
  induction a with
  | nil => simp [splitSlash]
  | cons c a ih =>
    by_cases hc : c = slash
    · simp [splitSlash, hc, ih]
    · simp only [List.cons_append, splitSlash, hc, ↓reduceIte, ih]
      cases hs : splitSlash a with
      | nil => exact absurd hs (splitSlash_ne_nil a)
      | cons h t => simp [consHead]

theorem splitSlash_noSlash {a : Str} (h : slash ∉ a) : splitSlash a = [a] := by
  induction a with
  | nil => simp [splitSlash]
  | cons c a ih =>
    have hc : c ≠ slash := fun e => h (by simp [e])
    have ha : slash ∉ a := fun m => h (List.mem_cons_of_mem _ m)
    rw [splitSlash]; simp [hc, ih ha, consHead]

theorem splitSlash_joinSlash {cs : List Str} (hne : cs ≠ []) (h : ∀ c ∈ cs, slash ∉ c) :
    splitSlash (joinSlash cs) = cs := by
  induction cs with
  | nil => exact absurd rfl hne
  | cons a t ih =>
    cases t with
    | nil => simpa [joinSlash] using splitSlash_noSlash (h a (by simp))
    | cons b t =>
      rw [joinSlash, splitSlash_append_slash, splitSlash_noSlash (h a (by simp)),
        ih (by simp) (fun c hc => h c (List.mem_cons_of_mem _ hc))]
      rfl

-- ------------------------------------------------------------------ paths -----------

/-- what `_parse_path` keeps as a part and the OS can have as a name: non-empty, not `.`,
without `/` -/
def goodPart (c : Str) : Prop := c ≠ [] ∧ c ≠ dotS ∧ slash ∉ c

/-- a parsed `PurePosixPath`: anchor `""`, `/` or `//`, all parts proper -/
def PPath.wf (p : PPath) : Prop := p.root ≤ 2 ∧ ∀ c ∈ p.parts, goodPart c

theorem keep_of_goodPart {c : Str} (h : goodPart c) : keep c = true := by
  simp [keep, h.1, h.2.1]

theorem filter_keep_of_good {ps : List Str} (h : ∀ c ∈ ps, goodPart c) :
    ps.filter keep = ps :=
  List.filter_eq_self.mpr fun c hc => keep_of_goodPart (h c hc)

theorem filter_keep_split_join {ps : List Str} (h : ∀ c ∈ ps, goodPart c) :
    (splitSlash (joinSlash ps)).filter keep = ps := by
  cases ps with
  | nil => simp [joinSlash, splitSlash, keep]
  | cons a t =>
    rw [splitSlash_joinSlash (by simp) (fun c hc => (h c hc).2.2)]
    exact filter_keep_of_good h

theorem filter_keep_split_rootStr (r : Nat) (s : Str) :
    (splitSlash (rootStr r ++ s)).filter keep = (splitSlash s).filter keep := by
  match r with
  | 0 => simp [rootStr]
  | 1 => simp [rootStr, splitSlash, keep]
  | _ + 2 => simp [rootStr, splitSlash, keep]

theorem filter_keep_split_str {p : PPath} (h : p.wf) :
    (splitSlash p.str).filter keep = p.parts := by
  unfold PPath.str
  split
  · rename_i h0; simp [h0.2, dotS, splitSlash, consHead, keep, slash]
  · rw [filter_keep_split_rootStr, filter_keep_split_join h.2]

theorem posixJoin_of_not_abs {a b : Str} (hb : b.head? ≠ some slash) :
    posixJoin a b = if a = [] ∨ a.getLast? = some slash then a ++ b else a ++ slash :: b := by
  simp [posixJoin, hb]

theorem posixJoin_split {a b : Str} (ha : a ≠ []) (hb : b.head? ≠ some slash) :
    (splitSlash (posixJoin a b)).filter keep
      = (splitSlash a).filter keep ++ (splitSlash b).filter keep := by
  rw [posixJoin_of_not_abs hb]
  by_cases hl : a.getLast? = some slash
  · obtain ⟨a', rfl⟩ := List.getLast?_eq_some_iff.mp hl
    simp only [hl, or_true, ↓reduceIte, List.append_assoc, List.singleton_append]
    rw [splitSlash_append_slash, splitSlash_append_slash]
    simp [splitSlash, keep]
  · simp only [ha, hl, or_self, ↓reduceIte]
    rw [splitSlash_append_slash, List.filter_append]

theorem head_of_good {c : Str} (h : goodPart c) : ∃ x t, c = x :: t ∧ x ≠ slash := by
  cases c with
  | nil => exact absurd rfl h.1
  | cons x t => exact ⟨x, t, rfl, fun e => h.2.2 (by simp [e])⟩

theorem joinSlash_cons_cons (x : Nat) (c : Str) (t : List Str) :
    ∃ rest, joinSlash ((x :: c) :: t) = x :: rest := by
  cases t <;> simp [joinSlash]

theorem rootOf_join {p : PPath} (h : p.wf) {b : Str} (hb : b.head? ≠ some slash) :
    rootOf (posixJoin p.str b) = p.root := by
  rw [posixJoin_of_not_abs hb]
  obtain ⟨hr, hp⟩ := h
  have hr3 : p.root = 0 ∨ p.root = 1 ∨ p.root = 2 := by omega
  cases hparts : p.parts with
  | nil =>
    rcases hr3 with h0 | h0 | h0
    · simp [PPath.str, hparts, h0, dotS, rootOf, slash]
    · have hb' : ¬ b.head? = some 47 := hb
      simp [PPath.str, hparts, h0, rootStr, joinSlash, rootOf, slash, hb']
    · have hb' : ¬ b.head? = some 47 := hb
      simp [PPath.str, hparts, h0, rootStr, joinSlash, rootOf, slash, hb']
  | cons c t =>
    obtain ⟨x, c', rfl, hx⟩ := head_of_good (hp c (by simp [hparts]))
    obtain ⟨rest, hrest⟩ := joinSlash_cons_cons x c' t
    have hx' : ¬ x = 47 := hx
    have hstr : p.str = rootStr p.root ++ x :: rest := by
      simp [PPath.str, hparts, hrest]
    rw [hstr]
    rcases hr3 with h0 | h0 | h0 <;> split <;> simp [h0, rootStr, rootOf, slash, hx']

/-- `root / s` for a string that does not start with `/`: the anchor stays, the parts of `s`
that survive parsing are appended. -/
theorem join_eq {p : PPath} (h : p.wf) {b : Str} (hb : b.head? ≠ some slash) :
    p.join b = { root := p.root, parts := p.parts ++ (splitSlash b).filter keep } := by
  have hne : p.str ≠ [] := by
    unfold PPath.str
    split
    · simp [dotS]
    · rename_i h0
      intro e
      have := filter_keep_split_str h
      simp only [PPath.str, h0, ↓reduceIte, e] at this
      have hp : p.parts = [] := by simpa [splitSlash, keep] using this.symm
      have hr : rootStr p.root = [] := (List.append_eq_nil_iff.mp e).1
      have : p.root = 0 := by
        match hpr : p.root with
        | 0 => rfl
        | 1 => simp [hpr, rootStr] at hr
        | _ + 2 => simp [hpr, rootStr] at hr
      exact h0 ⟨this, hp⟩
  unfold PPath.join parsePath
  rw [rootOf_join h hb, posixJoin_split hne hb, filter_keep_split_str h]

end Aiocoap.FileServer
