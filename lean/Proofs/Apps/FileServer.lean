import AiocoapModel.Apps.FileServer
/-! Helper lemmas about the file-server model: `split`/`join` on `/`, the pathlib join, and the
shape of accepted component lists. -/
namespace Aiocoap.FileServer

-- ------------------------------------------------------------------ split / join ----

theorem splitSlash_ne_nil (s : Str) : splitSlash s ≠ [] := by
  cases s with
  | nil => simp [splitSlash]
  | cons c cs =>
    rw [splitSlash]
    split
    · simp
    · cases splitSlash cs <;> simp [consHead]

theorem splitSlash_append_slash (a b : Str) :
    splitSlash (a ++ slash :: b) = splitSlash a ++ splitSlash b := by
  induction a with
  | nil => simp [splitSlash]
  | cons c a ih =>
    by_cases hc : c = slash
    · simp [splitSlash, hc, ih]
    · simp only [List.cons_append, splitSlash, hc, ↓reduceIte, ih]
      cases hs : splitSlash a with
      | nil => exact absurd hs (splitSlash_ne_nil a)
      | cons h t => simp [consHead]

theorem splitSlash_noSlash {a : Str} (h : slash ∉ a) : splitSlash a = [a] := by
  induction a with
  | nil => simp [splitSlash]
  | cons c a ih =>
    have hc : c ≠ slash := fun e => h (by simp [e])
    have ha : slash ∉ a := fun m => h (List.mem_cons_of_mem _ m)
    rw [splitSlash]; simp [hc, ih ha, consHead]

theorem splitSlash_joinSlash {cs : List Str} (hne : cs ≠ []) (h : ∀ c ∈ cs, slash ∉ c) :
    splitSlash (joinSlash cs) = cs := by
  induction cs with
  | nil => exact absurd rfl hne
  | cons a t ih =>
    cases t with
    | nil => simpa [joinSlash] using splitSlash_noSlash (h a (by simp))
    | cons b t =>
      rw [joinSlash, splitSlash_append_slash, splitSlash_noSlash (h a (by simp)),
        ih (by simp) (fun c hc => h c (List.mem_cons_of_mem _ hc))]
      rfl

-- ------------------------------------------------------------------ paths -----------

/-- what `_parse_path` keeps as a part and the OS can have as a name: non-empty, not `.`,
without `/` -/
def goodPart (c : Str) : Prop := c ≠ [] ∧ c ≠ dotS ∧ slash ∉ c

/-- a parsed `PurePosixPath`: anchor `""`, `/` or `//`, all parts proper -/
def PPath.wf (p : PPath) : Prop := p.root ≤ 2 ∧ ∀ c ∈ p.parts, goodPart c

theorem keep_of_goodPart {c : Str} (h : goodPart c) : keep c = true := by
  simp [keep, h.1, h.2.1]

theorem filter_keep_of_good {ps : List Str} (h : ∀ c ∈ ps, goodPart c) :
    ps.filter keep = ps :=
  List.filter_eq_self.mpr fun c hc => keep_of_goodPart (h c hc)

theorem filter_keep_split_join {ps : List Str} (h : ∀ c ∈ ps, goodPart c) :
    (splitSlash (joinSlash ps)).filter keep = ps := by
  cases ps with
  | nil => simp [joinSlash, splitSlash, keep]
  | cons a t =>
    rw [splitSlash_joinSlash (by simp) (fun c hc => (h c hc).2.2)]
    exact filter_keep_of_good h

theorem filter_keep_split_rootStr (r : Nat) (s : Str) :
    (splitSlash (rootStr r ++ s)).filter keep = (splitSlash s).filter keep := by
  match r with
  | 0 => simp [rootStr]
  | 1 => simp [rootStr, splitSlash, keep]
  | _ + 2 => simp [rootStr, splitSlash, keep]

theorem filter_keep_split_str {p : PPath} (h : p.wf) :
    (splitSlash p.str).filter keep = p.parts := by
  unfold PPath.str
  split
  · rename_i h0; simp [h0.2, dotS, splitSlash, consHead, keep, slash]
  · rw [filter_keep_split_rootStr, filter_keep_split_join h.2]

theorem posixJoin_of_not_abs {a b : Str} (hb : b.head? ≠ some slash) :
    posixJoin a b = if a = [] ∨ a.getLast? = some slash then a ++ b else a ++ slash :: b := by
  simp [posixJoin, hb]

theorem posixJoin_split {a b : Str} (ha : a ≠ []) (hb : b.head? ≠ some slash) :
    (splitSlash (posixJoin a b)).filter keep
      = (splitSlash a).filter keep ++ (splitSlash b).filter keep := by
  rw [posixJoin_of_not_abs hb]
  by_cases hl : a.getLast? = some slash
  · obtain ⟨a', rfl⟩ := List.getLast?_eq_some_iff.mp hl
    simp only [hl, or_true, ↓reduceIte, List.append_assoc, List.singleton_append]
    rw [splitSlash_append_slash, splitSlash_append_slash]
    simp [splitSlash, keep]
  · simp only [ha, hl, or_self, ↓reduceIte]
    rw [splitSlash_append_slash, List.filter_append]

theorem head_of_good {c : Str} (h : goodPart c) : ∃ x t, c = x :: t ∧ x ≠ slash := by
  cases c with
  | nil => exact absurd rfl h.1
  | cons x t => exact ⟨x, t, rfl, fun e => h.2.2 (by simp [e])⟩

theorem joinSlash_cons_cons (x : Nat) (c : Str) (t : List Str) :
    ∃ rest, joinSlash ((x :: c) :: t) = x :: rest := by
  cases t <;> simp [joinSlash]

theorem rootOf_join {p : PPath} (h : p.wf) {b : Str} (hb : b.head? ≠ some slash) :
    rootOf (posixJoin p.str b) = p.root := by
  rw [posixJoin_of_not_abs hb]
  obtain ⟨hr, hp⟩ := h
  have hr3 : p.root = 0 ∨ p.root = 1 ∨ p.root = 2 := by omega
  cases hparts : p.parts with
  | nil =>
    rcases hr3 with h0 | h0 | h0
    · simp [PPath.str, hparts, h0, dotS, rootOf, slash]
    · have hb' : ¬ b.head? = some 47 := hb
      simp [PPath.str, hparts, h0, rootStr, joinSlash, rootOf, slash, hb']
    · have hb' : ¬ b.head? = some 47 := hb
      simp [PPath.str, hparts, h0, rootStr, joinSlash, rootOf, slash, hb']
  | cons c t =>
    obtain ⟨x, c', rfl, hx⟩ := head_of_good (hp c (by simp [hparts]))
    obtain ⟨rest, hrest⟩ := joinSlash_cons_cons x c' t
    have hx' : ¬ x = 47 := hx
    have hstr : p.str = rootStr p.root ++ x :: rest := by
      simp [PPath.str, hparts, hrest]
    rw [hstr]
    rcases hr3 with h0 | h0 | h0 <;> split <;> simp [h0, rootStr, rootOf, slash, hx']

/-- `root / s` for a string that does not start with `/`: the anchor stays, the parts of `s`
that survive parsing are appended. -/
theorem join_eq {p : PPath} (h : p.wf) {b : Str} (hb : b.head? ≠ some slash) :
    p.join b = { root := p.root, parts := p.parts ++ (splitSlash b).filter keep } := by
  have hne : p.str ≠ [] := by
    unfold PPath.str
    split
    · simp [dotS]
    · rename_i h0
      intro e
      have := filter_keep_split_str h
      simp only [PPath.str, h0, ↓reduceIte, e] at this
      have hp : p.parts = [] := by simpa [splitSlash, keep] using this.symm
      have hr : rootStr p.root = [] := (List.append_eq_nil_iff.mp e).1
      have : p.root = 0 := by
        match hpr : p.root with
        | 0 => rfl
        | 1 => simp [hpr, rootStr] at hr
        | _ + 2 => simp [hpr, rootStr] at hr
      exact h0 ⟨this, hp⟩
  unfold PPath.join parsePath
  rw [rootOf_join h hb, posixJoin_split hne hb, filter_keep_split_str h]

-- ------------------------------------------------------------------ accepted lists ---

/-- a component that names exactly one directory entry below its parent -/
def goodComp (c : Str) : Prop := c ≠ [] ∧ c ≠ dotS ∧ c ≠ dotdotS ∧ slash ∉ c

instance (c : Str) : Decidable (goodComp c) := by unfold goodComp; exact inferInstance
instance (c : Str) : Decidable (goodPart c) := by unfold goodPart; exact inferInstance

theorem goodComp.goodPart {c : Str} (h : goodComp c) : goodPart c := ⟨h.1, h.2.1, h.2.2.2⟩

theorem badComp_false {c : Str} : badComp c = false ↔ slash ∉ c ∧ c ≠ dotS ∧ c ≠ dotdotS := by
  simp [badComp, and_assoc]

/-- What `requestToLocalPath` checked when it answers `ok`. -/
theorem rtl_ok {root : PPath} {comps : List Str} {p : PPath}
    (h : requestToLocalPath root comps = .ok p) :
    (∀ c ∈ comps, badComp c = false) ∧ [] ∉ comps.dropLast ∧ p = root.join (joinSlash comps) := by
  unfold requestToLocalPath at h
  split at h
  · cases h
  · rename_i h1
    split at h
    · cases h
    · rename_i h2
      refine ⟨?_, ?_, ?_⟩
      · simpa using h1
      · simpa using h2
      · cases h; rfl

theorem rtl_error_iff {root : PPath} {comps : List Str} :
    (∃ e, requestToLocalPath root comps = .error e) ↔
      ((∃ c ∈ comps, badComp c = true) ∨ [] ∈ comps.dropLast) := by
  unfold requestToLocalPath
  constructor
  · rintro ⟨e, h⟩
    split at h
    · rename_i h1; left; simpa using h1
    · split at h
      · rename_i h2; right; simpa using h2
      · cases h
  · rintro (h | h)
    · have : comps.any badComp = true := by simpa using h
      exact ⟨.invalidPath, by simp [this]⟩
    · by_cases h1 : comps.any badComp = true
      · exact ⟨.invalidPath, by simp [h1]⟩
      · exact ⟨.invalidPath, by simp [h1, h]⟩

theorem joinSlash_head {comps : List Str} (h1 : ∀ c ∈ comps, slash ∉ c)
    (h2 : [] ∉ comps.dropLast) : (joinSlash comps).head? ≠ some slash := by
  match comps with
  | [] => simp [joinSlash]
  | [c] =>
    have := h1 c (by simp)
    cases c with
    | nil => simp [joinSlash]
    | cons x t => simp [joinSlash]; intro e; exact this (by simp [e])
  | c :: d :: t =>
    have hs := h1 c (by simp)
    cases c with
    | nil => exact absurd (by simp [List.dropLast]) h2
    | cons x t' => simp [joinSlash]; intro e; exact hs (by simp [e])

theorem split_join_filter {comps : List Str} (h : ∀ c ∈ comps, slash ∉ c ∧ c ≠ dotS) :
    (splitSlash (joinSlash comps)).filter keep = comps.filter (· != []) := by
  cases comps with
  | nil => simp [joinSlash, splitSlash, keep]
  | cons a t =>
    rw [splitSlash_joinSlash (by simp) (fun c hc => (h c hc).1)]
    apply List.filter_congr
    intro c hc
    simp [keep, (h c hc).2]

/-- Closed form of an accepted request path: the anchor of the root, the root's parts, then the
request's components (minus the trailing empty one), nothing collapsed and nothing replaced. -/
theorem rtl_eq {root : PPath} (hr : root.wf) {comps : List Str} {p : PPath}
    (h : requestToLocalPath root comps = .ok p) :
    p = { root := root.root, parts := root.parts ++ comps.filter (· != []) } := by
  obtain ⟨h1, h2, rfl⟩ := rtl_ok h
  have hb : ∀ c ∈ comps, slash ∉ c ∧ c ≠ dotS := fun c hc =>
    ⟨(badComp_false.mp (h1 c hc)).1, (badComp_false.mp (h1 c hc)).2.1⟩
  rw [join_eq hr (joinSlash_head (fun c hc => (hb c hc).1) h2), split_join_filter hb]

theorem rtl_rel_good {comps : List Str} (h1 : ∀ c ∈ comps, badComp c = false) :
    ∀ c ∈ comps.filter (· != []), goodComp c := by
  intro c hc
  rw [List.mem_filter] at hc
  obtain ⟨hm, hne⟩ := hc
  obtain ⟨a, b, d⟩ := badComp_false.mp (h1 c hm)
  exact ⟨by simpa using hne, b, d, a⟩

-- ------------------------------------------------------------------ inside the root ---

/-- `p` is lexically inside `root`: same anchor, the root's parts are a prefix, and what
follows are proper components (no `..`, no `.`, no `/`, not empty). -/
def Inside (root p : PPath) : Prop :=
  p.root = root.root ∧ ∃ rel, p.parts = root.parts ++ rel ∧ ∀ c ∈ rel, goodComp c

theorem Inside.child {root p : PPath} (h : Inside root p) {n : Str} (hn : goodComp n) :
    Inside root (p.child n) := by
  obtain ⟨h1, rel, h2, h3⟩ := h
  refine ⟨h1, rel ++ [n], by simp [PPath.child, h2], ?_⟩
  intro c hc
  rcases List.mem_append.mp hc with hc | hc
  · exact h3 c hc
  · simp at hc; subst hc; exact hn

/-- the parent of something strictly below the root is still inside -/
theorem Inside.parent {root : PPath} {rel : List Str} (hne : rel ≠ [])
    (hg : ∀ c ∈ rel, goodComp c) :
    Inside root (PPath.parent { root := root.root, parts := root.parts ++ rel }) := by
  refine ⟨rfl, rel.dropLast, by simp [PPath.parent, List.dropLast_append_of_ne_nil hne], ?_⟩
  intro c hc
  exact hg c (List.dropLast_subset _ hc)

-- ------------------------------------------------------------------ operations -------

/-- every path named by every operation is inside the root -/
def AllInside (root : PPath) (ops : List FsOp) : Prop :=
  ∀ op ∈ ops, ∀ q ∈ op.paths, Inside root q

/-- the names the operating system hands back are single proper components: `os.listdir`
omits `.`/`..` and no directory entry contains `/`; `tempfile` draws from `[a-z0-9_]` -/
def World.wf (w : World) : Prop := goodComp w.tmpName ∧ ∀ c ∈ w.children, goodComp c.1

@[simp] theorem allInside_nil (r : PPath) : AllInside r [] := by simp [AllInside]

@[simp] theorem allInside_cons (r : PPath) (op : FsOp) (ops : List FsOp) :
    AllInside r (op :: ops) ↔ (∀ q ∈ op.paths, Inside r q) ∧ AllInside r ops := by
  simp [AllInside]

@[simp] theorem allInside_append (r : PPath) (a b : List FsOp) :
    AllInside r (a ++ b) ↔ AllInside r a ∧ AllInside r b := by
  simp only [AllInside, List.mem_append]
  constructor
  · intro h; exact ⟨fun op ho => h op (Or.inl ho), fun op ho => h op (Or.inr ho)⟩
  · rintro ⟨h1, h2⟩ op (ho | ho); exact h1 op ho; exact h2 op ho

theorem renderGetAt_inside (cfg : Config) (req : Request) (w : World) {p : PPath}
    (hp : Inside cfg.root p) (hw : w.wf) : AllInside cfg.root (renderGetAt cfg req w p).ops := by
  have hch : AllInside cfg.root (w.children.map fun c => FsOp.stat (p.child c.1)) := by
    intro op ho q hq
    obtain ⟨c, hc, rfl⟩ := List.mem_map.mp ho
    simp only [FsOp.paths, List.mem_singleton] at hq
    subst hq
    exact hp.child (hw.2 c hc)
  unfold renderGetAt
  cases w.stat <;> simp only [] <;> (repeat' split) <;>
    simp [FsOp.paths, hp, hch]

theorem renderDeleteAt_inside (root : PPath) (req : Request) (w : World) {p : PPath}
    (hp : Inside root p) : AllInside root (renderDeleteAt req w p).ops := by
  unfold renderDeleteAt
  simp only []
  (repeat' split) <;> simp [FsOp.paths, hp]

theorem renderPutAt_inside (root : PPath) (req : Request) (w : World) {p : PPath}
    (hp : Inside root p) (hpar : Inside root p.parent) (hw : w.wf) :
    AllInside root (renderPutAt req w p).ops := by
  have htmp := hpar.child hw.1
  unfold renderPutAt
  simp only []
  (repeat' split) <;> simp [FsOp.paths, hp, hpar, htmp]

-- ------------------------------------------------------------------ read-only --------

def NoneModifying (ops : List FsOp) : Prop := ∀ op ∈ ops, op.modifying = false

theorem renderGetAt_nonmodifying (cfg : Config) (req : Request) (w : World) (p : PPath) :
    NoneModifying (renderGetAt cfg req w p).ops := by
  unfold renderGetAt NoneModifying
  cases w.stat <;> simp only [] <;> (repeat' split) <;> simp [FsOp.modifying]

theorem renderGet_nonmodifying (cfg : Config) (req : Request) (w : World) :
    NoneModifying (renderGet cfg req w).ops := by
  unfold renderGet
  split
  · simp [NoneModifying]
  · split
    · simp [NoneModifying]
    · exact renderGetAt_nonmodifying _ _ _ _

theorem rtl_wellKnownCore (root : PPath) :
    ∃ p, requestToLocalPath root wellKnownCore = .ok p := by
  refine ⟨root.join (joinSlash wellKnownCore), ?_⟩
  simp [requestToLocalPath, wellKnownCore, badComp, dotS, dotdotS, slash, List.dropLast]

-- ------------------------------------------------------------------ block slicing ----

theorem blockSize_pos (szx : Nat) : 0 < blockSize szx := Nat.pow_pos (by decide)

theorem sliceBlock_more (content : Bytes) (k szx : Nat) :
    (sliceBlock content (some (k, szx))).more
      = decide ((content.drop (k * blockSize szx)).length > blockSize szx) := by
  simp only [sliceBlock, Option.getD_some, Response.more]
  split
  · rename_i h
    split at h
    · cases h
    · rename_i hc
      simp only [Option.some.injEq, Prod.mk.injEq] at h
      rw [← h.2.1]
      simp [List.length_take]; omega
  · rename_i h
    split at h
    · rename_i hc
      have := hc.2
      simp [List.length_take] at this ⊢; omega
    · cases h

theorem sliceBlock_payload (content : Bytes) (k szx : Nat) :
    (sliceBlock content (some (k, szx))).payload
      = (content.drop (k * blockSize szx)).take (blockSize szx) := by
  simp [sliceBlock, List.take_take]

/-- Fetching from block `k` on yields the rest of the content from offset `k·size`. -/
theorem fetchLoop_slice (content : Bytes) (szx : Nat) :
    ∀ fuel k, (content.drop (k * blockSize szx)).length < fuel * blockSize szx →
      fetchLoop (fun k => sliceBlock content (some (k, szx))) fuel k
        = some (content.drop (k * blockSize szx)) := by
  intro fuel
  induction fuel with
  | zero => intro k h; simp at h
  | succ fuel ih =>
    intro k h
    have hpos := blockSize_pos szx
    simp only [fetchLoop, sliceBlock_more, sliceBlock_payload]
    by_cases hm : (content.drop (k * blockSize szx)).length > blockSize szx
    · have hnext : content.drop ((k + 1) * blockSize szx)
          = (content.drop (k * blockSize szx)).drop (blockSize szx) := by
        rw [List.drop_drop, Nat.succ_mul]
      have hlen : (content.drop ((k + 1) * blockSize szx)).length < fuel * blockSize szx := by
        rw [hnext, List.length_drop]
        rw [Nat.succ_mul] at h
        omega
      simp only [hm, decide_true, ↓reduceIte, ih (k + 1) hlen, Option.map_some, hnext,
        List.take_append_drop]
    · simp only [hm, decide_false, Bool.false_eq_true, ↓reduceIte]
      rw [List.take_of_length_le (by omega)]

/-- what `handle` answers to a GET of a regular file that is not revalidated -/
theorem handle_get_file (cfg : Config) (req : Request) (w : World) (p : PPath)
    (hget : req.method = .get) (hwk : req.path ≠ wellKnownCore)
    (hacc : requestToLocalPath cfg.root req.path = .ok p) (hfile : w.stat = .file)
    (hrev : (cfg.etags && w.etagMatches) = false) (hnt : trailingEmpty req.path = false)
    (b : Option (Nat × Nat)) :
    (handle cfg { req with block2 := b } w).resp = sliceBlock w.content b := by
  simp [handle, hget, renderGet, hwk, hacc, renderGetAt, hfile, hrev, hnt]

end Aiocoap.FileServer
