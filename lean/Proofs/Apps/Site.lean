import AiocoapModel.Apps.Site
/-! Helper lemmas about the `Site` model: dict operations, the longest-prefix search, an
induction principle for the nested tree, and the list form of the mutual helpers. -/
namespace Aiocoap.Apps

-- dicts ------------------------------------------------------------------------------------

section dict
variable {α : Type}

@[simp] theorem lookup_nil (k : Path) : lookup k ([] : List (Path × α)) = none := rfl

theorem lookup_cons (k q : Path) (v : α) (d : List (Path × α)) :
    lookup k ((q, v) :: d) = if q = k then some v else lookup k d := rfl

theorem lookup_eq_none_iff {k : Path} {d : List (Path × α)} :
    lookup k d = none ↔ k ∉ keys d := by
  induction d with
  | nil => simp [keys]
  | cons e d ih =>
    obtain ⟨q, v⟩ := e
    rw [lookup_cons]
    by_cases h : q = k
    · simp [h, keys]
    · simp only [h, ↓reduceIte, ih, keys, List.map_cons, List.mem_cons, not_or]
      exact ⟨fun hh => ⟨fun e => h e.symm, hh⟩, fun hh => hh.2⟩

theorem lookup_isSome_iff {k : Path} {d : List (Path × α)} :
    (lookup k d).isSome ↔ k ∈ keys d := by
  cases h : lookup k d with
  | none => simp [lookup_eq_none_iff.mp h]
  | some v =>
    simp only [Option.isSome_some, true_iff]
    exact Classical.byContradiction fun hn => by
      rw [lookup_eq_none_iff.mpr hn] at h; cases h

theorem lookup_mem {k : Path} {v : α} {d : List (Path × α)} (h : lookup k d = some v) :
    (k, v) ∈ d := by
  induction d with
  | nil => cases h
  | cons e d ih =>
    obtain ⟨q, w⟩ := e
    rw [lookup_cons] at h
    by_cases hq : q = k
    · simp only [hq, ↓reduceIte, Option.some.injEq] at h
      subst h; subst hq; exact List.mem_cons_self
    · simp only [hq, ↓reduceIte] at h
      exact List.mem_cons_of_mem _ (ih h)

theorem mem_keys_of_mem {k : Path} {v : α} {d : List (Path × α)} (h : (k, v) ∈ d) :
    k ∈ keys d := List.mem_map.mpr ⟨(k, v), h, rfl⟩

/-- with unique keys (a dict) the items are exactly what `lookup` finds -/
theorem lookup_of_mem {k : Path} {v : α} {d : List (Path × α)} (hn : (keys d).Nodup)
    (h : (k, v) ∈ d) : lookup k d = some v := by
  induction d with
  | nil => cases h
  | cons e d ih =>
    obtain ⟨q, w⟩ := e
    simp only [keys, List.map_cons, List.nodup_cons] at hn
    rw [lookup_cons]
    rcases List.mem_cons.mp h with heq | hmem
    · cases heq; simp
    · have : q ≠ k := fun e => hn.1 (e ▸ mem_keys_of_mem hmem)
      simp only [this, ↓reduceIte]
      exact ih hn.2 hmem

theorem lookup_insert_self (k : Path) (v : α) (d : List (Path × α)) :
    lookup k (insert k v d) = some v := by
  induction d with
  | nil => simp [insert, lookup_cons]
  | cons e d ih =>
    obtain ⟨q, w⟩ := e
    by_cases h : q = k <;> simp [insert, lookup_cons, h, ih]

theorem lookup_insert_ne {k k' : Path} (hne : k' ≠ k) (v : α) (d : List (Path × α)) :
    lookup k' (insert k v d) = lookup k' d := by
  have hne' : ¬ k = k' := fun e => hne e.symm
  induction d with
  | nil => simp [insert, lookup_cons, hne']
  | cons e d ih =>
    obtain ⟨q, w⟩ := e
    by_cases h : q = k
    · subst h; simp [insert, lookup_cons, hne']
    · by_cases h' : q = k'
      · subst h'; simp [insert, lookup_cons, h]
      · simp [insert, lookup_cons, h, h', ih]

theorem keys_insert_of_mem {k : Path} (v : α) {d : List (Path × α)} (h : k ∈ keys d) :
    keys (insert k v d) = keys d := by
  induction d with
  | nil => simp [keys] at h
  | cons e d ih =>
    obtain ⟨q, w⟩ := e
    by_cases hq : q = k
    · simp [insert, hq, keys]
    · have : k ∈ keys d := by
        simp only [keys, List.map_cons, List.mem_cons] at h
        rcases h with h | h
        · exact absurd h.symm hq
        · exact h
      simp only [insert, hq, ↓reduceIte, keys, List.map_cons, List.cons.injEq, true_and]
      exact ih this

theorem keys_insert_of_not_mem {k : Path} (v : α) {d : List (Path × α)} (h : k ∉ keys d) :
    keys (insert k v d) = keys d ++ [k] := by
  induction d with
  | nil => simp [insert, keys]
  | cons e d ih =>
    obtain ⟨q, w⟩ := e
    simp only [keys, List.map_cons, List.mem_cons, not_or] at h
    have hq : q ≠ k := fun e => h.1 e.symm
    simp only [insert, hq, ↓reduceIte, keys, List.map_cons, List.cons_append, List.cons.injEq,
      true_and]
    exact ih h.2

theorem mem_keys_insert {k k' : Path} {v : α} {d : List (Path × α)} :
    k' ∈ keys (insert k v d) ↔ k' = k ∨ k' ∈ keys d := by
  by_cases h : k ∈ keys d
  · rw [keys_insert_of_mem v h]
    constructor
    · exact Or.inr
    · rintro (rfl | h') <;> assumption
  · rw [keys_insert_of_not_mem v h]
    simp only [List.mem_append, List.mem_singleton]
    constructor
    · rintro (h' | h') <;> simp [h']
    · rintro (h' | h') <;> simp [h']

theorem keys_insert_nodup {k : Path} (v : α) {d : List (Path × α)} (hn : (keys d).Nodup) :
    (keys (insert k v d)).Nodup := by
  by_cases h : k ∈ keys d
  · rw [keys_insert_of_mem v h]; exact hn
  · rw [keys_insert_of_not_mem v h]
    exact List.nodup_append.mpr ⟨hn, by simp, by
      intro a ha b hb
      simp only [List.mem_singleton] at hb
      subst hb
      exact fun e => h (e ▸ ha)⟩

theorem lookup_erase_self (k : Path) (d : List (Path × α)) : lookup k (erase k d) = none := by
  rw [lookup_eq_none_iff]
  simp [keys, erase]

theorem lookup_erase_ne {k k' : Path} (hne : k' ≠ k) (d : List (Path × α)) :
    lookup k' (erase k d) = lookup k' d := by
  induction d with
  | nil => rfl
  | cons e d ih =>
    obtain ⟨q, w⟩ := e
    simp only [erase] at ih ⊢
    by_cases hq : q = k
    · subst hq
      have : ¬ q = k' := fun e => hne e.symm
      simp only [List.filter_cons, decide_true, Bool.not_true, Bool.false_eq_true,
        ↓reduceIte, lookup_cons, this]
      exact ih
    · simp only [List.filter_cons, hq, decide_false, Bool.not_false, ↓reduceIte,
        lookup_cons]
      by_cases hq' : q = k'
      · simp [hq']
      · simp only [hq', ↓reduceIte]; exact ih

theorem mem_keys_erase {k k' : Path} {d : List (Path × α)} :
    k' ∈ keys (erase k d) ↔ k' ≠ k ∧ k' ∈ keys d := by
  simp only [keys, erase, List.mem_map, List.mem_filter, Bool.not_eq_eq_eq_not, Bool.not_true,
    decide_eq_false_iff_not]
  constructor
  · rintro ⟨e, ⟨hm, hne⟩, rfl⟩; exact ⟨hne, e, hm, rfl⟩
  · rintro ⟨hne, e, hm, rfl⟩; exact ⟨e, ⟨hm, hne⟩, rfl⟩

theorem keys_erase_nodup {k : Path} {d : List (Path × α)} (hn : (keys d).Nodup) :
    (keys (erase k d)).Nodup := by
  simp only [keys, erase] at *
  exact (List.filter_sublist.map _).nodup hn

/-- replacing the value of an existing key keeps every entry's place -/
theorem insert_of_lookup {k : Path} {v : α} (w : α) {d : List (Path × α)}
    (h : lookup k d = some v) :
    ∃ pre post, d = pre ++ (k, v) :: post ∧ k ∉ keys pre ∧
      insert k w d = pre ++ (k, w) :: post := by
  induction d with
  | nil => cases h
  | cons e d ih =>
    obtain ⟨q, u⟩ := e
    rw [lookup_cons] at h
    by_cases hq : q = k
    · simp only [hq, ↓reduceIte, Option.some.injEq] at h
      subst h; subst hq
      exact ⟨[], d, rfl, by simp [keys], by simp [insert]⟩
    · simp only [hq, ↓reduceIte] at h
      obtain ⟨pre, post, h1, h2, h3⟩ := ih h
      refine ⟨(q, u) :: pre, post, by simp [h1], ?_, by simp [insert, hq, h3]⟩
      simp only [keys, List.map_cons, List.mem_cons, not_or]
      exact ⟨fun e => hq e.symm, h2⟩

theorem mem_insert {k : Path} {v : α} {d : List (Path × α)} {e : Path × α}
    (h : e ∈ insert k v d) : e = (k, v) ∨ e ∈ d := by
  induction d with
  | nil => simp only [insert, List.mem_singleton] at h; exact Or.inl h
  | cons x d ih =>
    obtain ⟨q, w⟩ := x
    by_cases hq : q = k
    · simp only [insert, hq, ↓reduceIte, List.mem_cons] at h
      rcases h with h | h
      · exact Or.inl h
      · exact Or.inr (List.mem_cons_of_mem _ h)
    · simp only [insert, hq, ↓reduceIte, List.mem_cons] at h
      rcases h with h | h
      · exact Or.inr (h ▸ List.mem_cons_self)
      · rcases ih h with h | h
        · exact Or.inl h
        · exact Or.inr (List.mem_cons_of_mem _ h)

theorem mem_of_mem_erase {k : Path} {d : List (Path × α)} {e : Path × α}
    (h : e ∈ erase k d) : e ∈ d := (List.mem_filter.mp h).1

end dict

-- prefixes and the longest-prefix search ---------------------------------------------------

/-- `k` is a proper prefix of the request path `p` (the empty path is one of every non-empty
path) -/
def ProperPrefix (k p : Path) : Prop := k.length < p.length ∧ k <+: p

theorem properPrefix_take {p : Path} {j : Nat} (h : j < p.length) :
    ProperPrefix (p.take j) p := by
  refine ⟨?_, List.take_prefix j p⟩
  simp only [List.length_take]; omega

theorem ProperPrefix.eq_take {k p : Path} (h : ProperPrefix k p) :
    k = p.take k.length ∧ k.length ≤ p.length - 1 := by
  obtain ⟨hlt, hpre⟩ := h
  exact ⟨(List.prefix_iff_eq_take.mp hpre), by omega⟩

theorem ProperPrefix.ne_nil {k p : Path} (h : ProperPrefix k p) : p ≠ [] := by
  intro e; subst e; have := h.1; simp at this

theorem ProperPrefix.split {k p : Path} (h : ProperPrefix k p) :
    k ++ p.drop k.length = p ∧ p.drop k.length ≠ [] := by
  obtain ⟨h1, _⟩ := h.eq_take
  refine ⟨?_, ?_⟩
  · conv => lhs; rw [h1]
    simp only [List.length_take]
    rw [Nat.min_eq_left (by have := h.1; omega)]
    exact List.take_append_drop _ _
  · intro hd
    have := congrArg List.length hd
    simp only [List.length_drop, List.length_nil] at this
    have := h.1
    omega

theorem bestSplit_some {ks : List Path} {p : Path} {n k : Nat}
    (h : bestSplit ks p n = some k) :
    k ≤ n ∧ p.take k ∈ ks ∧ ∀ j, k < j → j ≤ n → p.take j ∉ ks := by
  induction n with
  | zero =>
    unfold bestSplit at h
    by_cases hm : ([] : Path) ∈ ks
    · simp only [hm, ↓reduceIte, Option.some.injEq] at h
      subst h
      exact ⟨Nat.le_refl _, by simpa using hm, fun j h1 h2 => by omega⟩
    · simp [hm] at h
  | succ n ih =>
    unfold bestSplit at h
    by_cases hm : p.take (n + 1) ∈ ks
    · simp only [hm, ↓reduceIte, Option.some.injEq] at h
      subst h
      exact ⟨by omega, hm, fun j h1 h2 => by omega⟩
    · simp only [hm, ↓reduceIte] at h
      obtain ⟨b, c, d⟩ := ih h
      refine ⟨by omega, c, fun j h1 h2 => ?_⟩
      by_cases hj : j = n + 1
      · subst hj; exact hm
      · exact d j h1 (by omega)

theorem bestSplit_none {ks : List Path} {p : Path} {n : Nat}
    (h : bestSplit ks p n = none) : ∀ j, j ≤ n → p.take j ∉ ks := by
  induction n with
  | zero =>
    intro j h2
    have : j = 0 := by omega
    subst this
    unfold bestSplit at h
    by_cases hm : ([] : Path) ∈ ks
    · simp [hm] at h
    · simpa using hm
  | succ n ih =>
    unfold bestSplit at h
    by_cases hm : p.take (n + 1) ∈ ks
    · simp [hm] at h
    · simp only [hm, ↓reduceIte] at h
      intro j h2
      by_cases hj : j = n + 1
      · subst hj; exact hm
      · exact ih h j (by omega)

/-- the search finds exactly the longest registered proper prefix -/
theorem bestSplit_of_longest {ks : List Path} {p k : Path} (hk : k ∈ ks)
    (hpre : ProperPrefix k p)
    (hmax : ∀ k' ∈ ks, ProperPrefix k' p → k'.length ≤ k.length) :
    bestSplit ks p (p.length - 1) = some k.length := by
  obtain ⟨h1, h3⟩ := hpre.eq_take
  have hlen := hpre.1
  cases h : bestSplit ks p (p.length - 1) with
  | none =>
    exact absurd (h1 ▸ hk) (bestSplit_none h k.length h3)
  | some j =>
    obtain ⟨b, c, d⟩ := bestSplit_some h
    have hle : (p.take j).length ≤ k.length := hmax _ c (properPrefix_take (by omega))
    simp only [List.length_take] at hle
    have : j ≤ k.length := by omega
    by_cases hlt : j < k.length
    · exact absurd (h1 ▸ hk) (d k.length hlt h3)
    · congr; omega

theorem bestSplit_none_of_no_prefix {ks : List Path} {p : Path} (hp : p ≠ [])
    (h : ∀ k ∈ ks, ¬ ProperPrefix k p) : bestSplit ks p (p.length - 1) = none := by
  cases hb : bestSplit ks p (p.length - 1) with
  | none => rfl
  | some j =>
    obtain ⟨b, c, _⟩ := bestSplit_some hb
    have : 0 < p.length := List.length_pos_iff.mpr hp
    exact absurd (properPrefix_take (by omega)) (h _ c)

/-- the candidates of the prefix search other than `k` are the same with and without `k` -/
theorem bestSplit_congr_of_not_prefix {ks ks' : List Path} {p k : Path} (hp : p ≠ [])
    (hnp : ¬ ProperPrefix k p) (hsame : ∀ k', k' ≠ k → (k' ∈ ks' ↔ k' ∈ ks)) :
    bestSplit ks' p (p.length - 1) = bestSplit ks p (p.length - 1) := by
  have hpos : 0 < p.length := List.length_pos_iff.mpr hp
  have hmem : ∀ j, j ≤ p.length - 1 → (p.take j ∈ ks' ↔ p.take j ∈ ks) := by
    intro j hj
    exact hsame _ (fun e => hnp (e ▸ properPrefix_take (by omega)))
  cases hb : bestSplit ks p (p.length - 1) with
  | none =>
    apply bestSplit_none_of_no_prefix hp
    intro k' hk' hpre'
    obtain ⟨h1, h3⟩ := hpre'.eq_take
    have := (hmem k'.length h3).mp (h1 ▸ hk')
    exact bestSplit_none hb _ h3 this
  | some j =>
    obtain ⟨b, c, d⟩ := bestSplit_some hb
    have := bestSplit_of_longest (ks := ks') (p := p) (k := p.take j)
      ((hmem j b).mpr c) (properPrefix_take (by omega)) (by
        intro k' hk' hpre'
        obtain ⟨h1, h3⟩ := hpre'.eq_take
        simp only [List.length_take]
        by_cases hlt : j < k'.length
        · exact absurd ((hmem k'.length h3).mp (h1 ▸ hk')) (d _ hlt h3)
        · omega)
    simp only [List.length_take] at this
    rw [this]; congr; omega

-- the nested tree --------------------------------------------------------------------------

/-- structural induction over the tree: a node's sub-sites satisfy the claim -/
theorem Site.induct {P : Site → Prop} (leaf : ∀ id, P (.leaf id))
    (node : ∀ rs ss, (∀ k t, (k, t) ∈ ss → P t) → P (.node rs ss)) : ∀ s, P s := by
  intro s
  refine Site.rec (motive_1 := P) (motive_2 := fun l => ∀ k t, (k, t) ∈ l → P t)
    (motive_3 := fun e => P e.2) ?_ leaf ?_ ?_ ?_ s
  · intro rs ss ih; exact node rs ss ih
  · intro k t h; cases h
  · intro head tail ih1 ih2 k t h
    rcases List.mem_cons.mp h with h | h
    · subst h; exact ih1
    · exact ih2 k t h
  · intro k t ih; exact ih

theorem routeIn_eq (ss : List (Path × Site)) (key orig rem : Path) :
    routeIn ss key orig rem =
      match lookup key ss with
      | some t => t.routeFrom orig rem
      | none => none := by
  induction ss with
  | nil => simp [routeIn]
  | cons e ss ih =>
    obtain ⟨q, s⟩ := e
    rw [routeIn.eq_2, lookup_cons]
    by_cases h : q = key
    · simp [h]
    · simp only [h, ↓reduceIte]; exact ih

/-- `routeFrom` on a node, with the descent written with `lookup` -/
theorem routeFrom_node (rs : List (Path × Res)) (ss : List (Path × Site)) (orig p : Path) :
    (Site.node rs ss).routeFrom orig p =
      match lookup p rs with
      | some r => some ⟨r.id, [], orig⟩
      | none =>
        if p = [] then
          if orig = [] then none
          else match lookup [[]] rs with
            | some r => some ⟨r.id, [], orig⟩
            | none => none
        else
          match bestSplit (keys ss) p (p.length - 1) with
          | none => none
          | some k =>
            match lookup (p.take k) ss with
            | some t => t.routeFrom orig (normRem (p.drop k))
            | none => none := by
  rw [Site.routeFrom.eq_2]
  cases lookup p rs with
  | some r => rfl
  | none =>
    simp only
    by_cases hp : p = []
    · subst hp; rfl
    · simp only [hp, ↓reduceIte]
      cases bestSplit (keys ss) p (p.length - 1) with
      | none => rfl
      | some k => simp only [routeIn_eq]

/-- `routeFrom` on a node for a non-empty request path -/
theorem routeFrom_node_of_ne (rs : List (Path × Res)) (ss : List (Path × Site)) (orig : Path)
    {p : Path} (hp : p ≠ []) :
    (Site.node rs ss).routeFrom orig p =
      match lookup p rs with
      | some r => some ⟨r.id, [], orig⟩
      | none =>
        match bestSplit (keys ss) p (p.length - 1) with
        | none => none
        | some k =>
          match lookup (p.take k) ss with
          | some t => t.routeFrom orig (normRem (p.drop k))
          | none => none := by
  rw [routeFrom_node]
  simp only [hp, ↓reduceIte]

/-- `routeFrom` on a node for the empty request path: the site's own root -/
theorem routeFrom_node_nil (rs : List (Path × Res)) (ss : List (Path × Site)) (orig : Path) :
    (Site.node rs ss).routeFrom orig [] =
      match lookup [] rs with
      | some r => some ⟨r.id, [], orig⟩
      | none =>
        if orig = [] then none
        else match lookup [[]] rs with
          | some r => some ⟨r.id, [], orig⟩
          | none => none := by
  rw [routeFrom_node]
  simp only [↓reduceIte]

theorem modifySubs_eq (f : Site → Option Site) (ss : List (Path × Site)) (k : Path)
    (ks : List Path) :
    modifySubs f ss k ks =
      match lookup k ss with
      | some t => (t.modifyAt f ks).map (fun t' => insert k t' ss)
      | none => none := by
  induction ss with
  | nil => simp [modifySubs]
  | cons e ss ih =>
    obtain ⟨q, s⟩ := e
    rw [modifySubs.eq_2, lookup_cons]
    by_cases h : q = k
    · subst h
      simp only [↓reduceIte, insert]
    · simp only [h, ↓reduceIte, ih]
      cases lookup k ss with
      | none => simp
      | some t =>
        simp only [Option.map_map]
        congr 1
        funext t'
        simp [insert, h]

/-- a call on the nested site object at `k :: ks` is a call on the sub-site `k`, whose entry in
the parent keeps its place -/
theorem modifyAt_cons (f : Site → Option Site) (rs : List (Path × Res))
    (ss : List (Path × Site)) (k : Path) (ks : List Path) :
    (Site.node rs ss).modifyAt f (k :: ks) =
      match lookup k ss with
      | some t => (t.modifyAt f ks).map (fun t' => Site.node rs (insert k t' ss))
      | none => none := by
  rw [Site.modifyAt.eq_3, modifySubs_eq]
  cases lookup k ss with
  | none => rfl
  | some t => simp [Option.map_map, Function.comp_def]

end Aiocoap.Apps
