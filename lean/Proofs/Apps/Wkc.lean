import AiocoapModel.Apps.Wkc
import Proofs.Apps.Site
/-! Helper lemmas about the link listing and the filter evaluation. -/
namespace Aiocoap.Apps

-- hrefs --------------------------------------------------------------------------------------

/-- the segments a registration path contributes to an href: `"/".join(())` and
`"/".join(("",))` are both the empty string -/
def seg (p : Path) : Path := if p = [] then [[]] else p

theorem seg_ne_nil (p : Path) : seg p ≠ [] := by
  unfold seg; split <;> simp_all

theorem seg_of_ne_nil {p : Path} (h : p ≠ []) : seg p = p := by simp [seg, h]

theorem hrefSegs_nil : hrefSegs [] = [] := rfl

theorem hrefSegs_cons (c : Str) (cs : Path) : hrefSegs (c :: cs) = 47 :: (escStr c ++ hrefSegs cs) := by
  simp [hrefSegs]

theorem hrefSegs_append (a b : Path) : hrefSegs (a ++ b) = hrefSegs a ++ hrefSegs b := by
  simp [hrefSegs]

theorem joinSlash_cons_cons (c d : Str) (rest : Path) :
    joinSlash (c :: d :: rest) = c ++ 47 :: joinSlash (d :: rest) := rfl

/-- `"/" + "/".join(quote(c) for c in path)` is `"".join("/" + quote(c) for c in path)` for a
non-empty path -/
theorem slash_joinSlash_map {p : Path} (hp : p ≠ []) :
    47 :: joinSlash (p.map escStr) = hrefSegs p := by
  induction p with
  | nil => exact absurd rfl hp
  | cons c p ih =>
    cases p with
    | nil => simp [joinSlash, hrefSegs]
    | cons d p =>
      have := ih (by simp)
      simp only [List.map_cons] at this ⊢
      rw [joinSlash_cons_cons, hrefSegs_cons, ← this]

/-- the href the code builds for a resource registered at `p` -/
theorem resHref_eq (p : Path) : 47 :: joinSlash (p.map escStr) = hrefSegs (seg p) := by
  by_cases hp : p = []
  · subst hp; simp [seg, joinSlash, hrefSegs, escStr]
  · rw [seg_of_ne_nil hp, slash_joinSlash_map hp]

/-- the href the code builds for a link below a sub-site is the href of the concatenated
segments -/
theorem prefixLink_href (k fp : Path) (attrs : List (Str × Option Str)) :
    prefixLink k ⟨hrefSegs fp, attrs⟩ = ⟨hrefSegs (k ++ fp), attrs⟩ := by
  simp only [prefixLink, hrefSegs_append]

-- listing ------------------------------------------------------------------------------------

theorem mem_resLinks {l : Link} {rs : List (Path × Res)} :
    l ∈ resLinks rs ↔ ∃ q r, (q, r) ∈ rs ∧ r.hidden = false ∧ l = ⟨hrefSegs (seg q), r.attrs⟩ := by
  induction rs with
  | nil => simp [resLinks]
  | cons e rs ih =>
    obtain ⟨q, r⟩ := e
    unfold resLinks
    rw [resHref_eq]
    by_cases hh : r.hidden = true
    · simp only [hh, ↓reduceIte, ih, List.mem_cons, Prod.mk.injEq]
      constructor
      · rintro ⟨q', r', hm, hv, rfl⟩; exact ⟨q', r', Or.inr hm, hv, rfl⟩
      · rintro ⟨q', r', hm | hm, hv, rfl⟩
        · obtain ⟨rfl, rfl⟩ := hm; rw [hh] at hv; cases hv
        · exact ⟨q', r', hm, hv, rfl⟩
    · have hf : r.hidden = false := by cases h : r.hidden <;> simp_all
      simp only [hf, Bool.false_eq_true, ↓reduceIte, List.mem_cons, ih, Prod.mk.injEq]
      constructor
      · rintro (rfl | ⟨q', r', hm, hv, rfl⟩)
        · exact ⟨q, r, Or.inl ⟨rfl, rfl⟩, hf, rfl⟩
        · exact ⟨q', r', Or.inr hm, hv, rfl⟩
      · rintro ⟨q', r', hm | hm, hv, rfl⟩
        · obtain ⟨rfl, rfl⟩ := hm; exact Or.inl rfl
        · exact Or.inr ⟨q', r', hm, hv, rfl⟩

theorem length_resLinks (rs : List (Path × Res)) :
    (resLinks rs).length = (rs.filter (fun e => !e.2.hidden)).length := by
  induction rs with
  | nil => rfl
  | cons e rs ih =>
    obtain ⟨q, r⟩ := e
    unfold resLinks
    cases h : r.hidden <;> simp [h, ih]

theorem linksSubs_eq (ss : List (Path × Site)) :
    linksSubs ss = ss.flatMap (fun e => e.2.links.map (prefixLink e.1)) := by
  induction ss with
  | nil => simp [linksSubs]
  | cons e ss ih => obtain ⟨k, t⟩ := e; simp [linksSubs, ih]

theorem links_node (rs : List (Path × Res)) (ss : List (Path × Site)) :
    (Site.node rs ss).links = resLinks rs ++ ss.flatMap (fun e => e.2.links.map (prefixLink e.1)) := by
  rw [Site.links.eq_2, linksSubs_eq]

-- str.split ----------------------------------------------------------------------------------

theorem splitOn_ne_nil (sep : Nat) (l : Str) : splitOn sep l ≠ [] := by
  cases l with
  | nil => simp [splitOn]
  | cons c cs =>
    unfold splitOn
    by_cases h : c = sep
    · simp [h]
    · simp only [h, ↓reduceIte]
      split <;> simp

theorem splitOn_no_sep {sep : Nat} {a : Str} (h : sep ∉ a) : splitOn sep a = [a] := by
  induction a with
  | nil => rfl
  | cons c a ih =>
    simp only [List.mem_cons, not_or] at h
    unfold splitOn
    have : ¬ c = sep := fun e => h.1 e.symm
    simp [this, ih h.2]

theorem splitOn_first {sep : Nat} {a : Str} (b : Str) (h : sep ∉ a) :
    splitOn sep (a ++ sep :: b) = a :: splitOn sep b := by
  induction a with
  | nil => simp [splitOn]
  | cons c a ih =>
    simp only [List.mem_cons, not_or] at h
    have : ¬ c = sep := fun e => h.1 e.symm
    simp only [List.cons_append]
    rw [splitOn]
    simp [this, ih h.2]

/-- split a string at the first separator, if any -/
theorem first_sep (sep : Nat) (l : Str) :
    sep ∉ l ∨ ∃ a b, l = a ++ sep :: b ∧ sep ∉ a := by
  induction l with
  | nil => left; simp
  | cons c l ih =>
    by_cases h : c = sep
    · right; exact ⟨[], l, by simp [h], by simp⟩
    · rcases ih with ih | ⟨a, b, rfl, ha⟩
      · left; simp only [List.mem_cons, not_or]; exact ⟨fun e => h e.symm, ih⟩
      · right
        refine ⟨c :: a, b, by simp, ?_⟩
        simp only [List.mem_cons, not_or]; exact ⟨fun e => h e.symm, ha⟩

theorem mem_splitOn_after {sep : Nat} {x : Str} (a b : Str) (h : x ∈ splitOn sep b) :
    x ∈ splitOn sep (a ++ sep :: b) := by
  generalize hn : a.length = n
  induction n using Nat.strongRecOn generalizing a with
  | _ n ih =>
    rcases first_sep sep a with hno | ⟨a1, a2, rfl, ha1⟩
    · rw [splitOn_first b hno]; exact List.mem_cons_of_mem _ h
    · rw [List.append_assoc, List.cons_append, splitOn_first _ ha1]
      refine List.mem_cons_of_mem _ (ih a2.length ?_ a2 rfl)
      subst hn; simp; omega

/-- the entries of `val.split(sep)` are exactly the maximal separator-free pieces of `val` -/
theorem mem_splitOn {sep : Nat} {part val : Str} :
    part ∈ splitOn sep val ↔
      sep ∉ part ∧ ∃ pre post, val = pre ++ part ++ post ∧
        (pre = [] ∨ ∃ pre', pre = pre' ++ [sep]) ∧ (post = [] ∨ ∃ post', post = sep :: post') := by
  constructor
  · generalize hn : val.length = n
    induction n using Nat.strongRecOn generalizing val part with
    | _ n ih =>
      intro hmem
      rcases first_sep sep val with hno | ⟨a, b, rfl, ha⟩
      · rw [splitOn_no_sep hno, List.mem_singleton] at hmem
        subst hmem
        exact ⟨hno, [], [], by simp, Or.inl rfl, Or.inl rfl⟩
      · rw [splitOn_first b ha, List.mem_cons] at hmem
        rcases hmem with rfl | hmem
        · exact ⟨ha, [], sep :: b, by simp, Or.inl rfl, Or.inr ⟨b, rfl⟩⟩
        · obtain ⟨h1, pre, post, rfl, hpre, hpost⟩ :=
            ih b.length (by subst hn; simp; omega) rfl hmem
          refine ⟨h1, a ++ sep :: pre, post, by simp, Or.inr ?_, hpost⟩
          rcases hpre with rfl | ⟨pre', rfl⟩
          · exact ⟨a, rfl⟩
          · exact ⟨a ++ sep :: pre', by simp⟩
  · rintro ⟨hno, pre, post, rfl, hpre, hpost⟩
    have hhead : part ∈ splitOn sep (part ++ post) := by
      rcases hpost with rfl | ⟨post', rfl⟩
      · simp [splitOn_no_sep hno]
      · rw [splitOn_first _ hno]; exact List.mem_cons_self
    rcases hpre with rfl | ⟨pre', rfl⟩
    · simpa using hhead
    · have := mem_splitOn_after pre' (part ++ post) hhead
      simpa [List.append_assoc] using this

-- filter pieces ------------------------------------------------------------------------------

theorem mem_attributeValues {l : Link} {k val : Str} :
    val ∈ attributeValues l k ↔
      ∃ key, (key, some val) ∈ l.attrs ∧ lowerAscii key = lowerAscii k := by
  unfold attributeValues
  simp only [List.mem_filterMap]
  constructor
  · rintro ⟨⟨key, v⟩, hm, h⟩
    by_cases hk : lowerAscii key = lowerAscii k
    · simp only [hk, ↓reduceIte] at h
      subst h; exact ⟨key, hm, hk⟩
    · simp [hk] at h
  · rintro ⟨key, hm, hk⟩
    exact ⟨(key, some val), hm, by simp [hk]⟩

theorem matchExp_iff (v x : Str) :
    matchExp v x = true ↔
      if v.getLast? = some 42 then v.dropLast <+: x else x = v := by
  unfold matchExp
  split <;> simp [List.isPrefixOf_iff_prefix]

theorem splitEq_some {q k v : Str} (h : splitEq q = some (k, v)) :
    q = k ++ 61 :: v ∧ 61 ∉ k := by
  induction q generalizing k with
  | nil => cases h
  | cons c cs ih =>
    unfold splitEq at h
    by_cases hc : c = 61
    · simp only [hc, ↓reduceIte, Option.some.injEq, Prod.mk.injEq] at h
      obtain ⟨rfl, rfl⟩ := h
      simp [hc]
    · simp only [hc, ↓reduceIte, Option.map_eq_some_iff, Prod.mk.injEq] at h
      obtain ⟨⟨k', v'⟩, hs, rfl, rfl⟩ := h
      obtain ⟨h1, h2⟩ := ih hs
      refine ⟨by simp [h1], ?_⟩
      simp only [List.mem_cons, not_or]
      exact ⟨fun e => hc e.symm, h2⟩

theorem splitEq_of_eq {k v : Str} (hk : 61 ∉ k) : splitEq (k ++ 61 :: v) = some (k, v) := by
  induction k with
  | nil => simp [splitEq]
  | cons c k ih =>
    simp only [List.mem_cons, not_or] at hk
    have : ¬ c = 61 := fun e => hk.1 e.symm
    simp [splitEq, this, ih hk.2]

theorem splitEq_none {q : Str} (h : splitEq q = none) : 61 ∉ q := by
  induction q with
  | nil => simp
  | cons c cs ih =>
    unfold splitEq at h
    by_cases hc : c = 61
    · simp [hc] at h
    · simp only [hc, ↓reduceIte, Option.map_eq_none_iff] at h
      simp only [List.mem_cons, not_or]
      exact ⟨fun e => hc e.symm, ih h⟩

-- several filters ---------------------------------------------------------------------------

theorem applyFilters_nil (ls : List Link) : applyFilters [] ls = ls := rfl

theorem applyFilters_cons (kv : Str × Str) (fs : List (Str × Str)) (ls : List Link) :
    applyFilters (kv :: fs) ls = (applyFilters fs ls).filter (linkMatches kv.1 kv.2) := rfl

/-- applying the filter functions one after the other keeps exactly the links every one of them
accepts -/
theorem applyFilters_eq_filter_all (fs : List (Str × Str)) (ls : List Link) :
    applyFilters fs ls = ls.filter (fun l => fs.all (fun kv => linkMatches kv.1 kv.2 l)) := by
  induction fs with
  | nil =>
    rw [applyFilters_nil]
    exact (List.filter_eq_self.mpr (fun _ _ => rfl)).symm
  | cons kv fs ih =>
    rw [applyFilters_cons, ih, List.filter_filter]
    apply List.filter_congr
    intro l _
    simp only [List.all_cons]

/-- what `render_get` filters: the generator's links plus the optional impl-info link -/
def wkcAll (links : List Link) (implInfo : Option Str) : List Link :=
  links ++ (match implInfo with | some u => [implInfoLink u] | none => [])

theorem wkcRender_eq (links : List Link) (implInfo : Option Str) (queries : List Str) :
    wkcRender links implInfo queries =
      applyFilters (queries.filterMap splitEq) (wkcAll links implInfo) := by
  cases implInfo <;> rfl

-- reading an href back (RFC 3986 §3.3 path segments, §2.1 percent-encoding) -------------------

/-- every component is a byte string -/
def PathWf (p : Path) : Prop := ∀ c ∈ p, ∀ b ∈ c, b < 256

/-- value of a hexadecimal digit, either case -/
def unhex (c : Nat) : Option Nat :=
  if 48 ≤ c ∧ c ≤ 57 then some (c - 48)
  else if 65 ≤ c ∧ c ≤ 70 then some (c - 55)
  else if 97 ≤ c ∧ c ≤ 102 then some (c - 87)
  else none

/-- percent-decoding of one segment; `none` for a `%` that is not followed by two hex digits -/
def unescStr : Str → Option Str
  | [] => some []
  | c :: rest =>
    if c = 37 then
      match rest with
      | a :: b :: rest' =>
        match unhex a, unhex b, unescStr rest' with
        | some x, some y, some r => some ((16 * x + y) :: r)
        | _, _, _ => none
      | _ => none
    else (unescStr rest).map (c :: ·)

def unescPath : List Str → Option Path
  | [] => some []
  | c :: cs =>
    match unescStr c, unescPath cs with
    | some x, some xs => some (x :: xs)
    | _, _ => none

/-- the segments of a path-absolute reference: what follows the leading `/`, split at every `/`,
each piece percent-decoded (`"/"` alone has the single empty segment) -/
def parseHref : Str → Option Path
  | [] => none
  | c :: rest => if c = 47 then unescPath (splitOn 47 rest) else none

theorem unhex_pctHex {n : Nat} (h : n < 16) : unhex (pctHex n) = some n := by
  unfold pctHex unhex
  by_cases h10 : n < 10
  · simp only [h10, ↓reduceIte]
    have h1 : 48 ≤ 48 + n ∧ 48 + n ≤ 57 := by omega
    simp only [h1, and_self, ↓reduceIte, Option.some.injEq]; omega
  · simp only [h10, ↓reduceIte]
    have h1 : ¬ (48 ≤ 55 + n ∧ 55 + n ≤ 57) := by omega
    have h2 : 65 ≤ 55 + n ∧ 55 + n ≤ 70 := by omega
    simp only [h1, h2, and_self, ↓reduceIte, Option.some.injEq]; omega

theorem hrefSafe_ne_pct {c : Nat} (h : hrefSafe c = true) : c ≠ 37 := by
  intro e; subst e; revert h; decide

theorem hrefSafe_ne_slash {c : Nat} (h : hrefSafe c = true) : c ≠ 47 := by
  intro e; subst e; revert h; decide

theorem pctHex_ne_slash (n : Nat) : pctHex n ≠ 47 := by
  unfold pctHex; split <;> omega

theorem escByte_no_slash (c : Nat) : 47 ∉ escByte c := by
  unfold escByte
  by_cases h : hrefSafe c = true
  · simp only [h, ↓reduceIte, List.mem_singleton]
    exact fun e => hrefSafe_ne_slash h e.symm
  · simp only [h, Bool.false_eq_true, ↓reduceIte, List.mem_cons, List.not_mem_nil, or_false,
      not_or]
    exact ⟨by omega, fun e => pctHex_ne_slash _ e.symm, fun e => pctHex_ne_slash _ e.symm⟩

theorem escStr_no_slash (s : Str) : 47 ∉ escStr s := by
  unfold escStr
  simp only [List.mem_flatMap, not_exists, not_and]
  exact fun c _ => escByte_no_slash c

theorem escStr_cons (c : Nat) (s : Str) : escStr (c :: s) = escByte c ++ escStr s := by
  simp [escStr]

theorem unescStr_cons_of_ne {c : Nat} (h : c ≠ 37) (rest : Str) :
    unescStr (c :: rest) = (unescStr rest).map (c :: ·) := by
  rw [unescStr.eq_def]
  simp only [h, ↓reduceIte]

theorem unescStr_pct (a b : Nat) (rest : Str) :
    unescStr (37 :: a :: b :: rest) =
      match unhex a, unhex b, unescStr rest with
      | some x, some y, some r => some ((16 * x + y) :: r)
      | _, _, _ => none := by
  rw [unescStr.eq_def]
  simp only [↓reduceIte]

theorem unescStr_escByte_append {b : Nat} (hb : b < 256) (t : Str) :
    unescStr (escByte b ++ t) = (unescStr t).map (b :: ·) := by
  unfold escByte
  by_cases h : hrefSafe b = true
  · simp only [h, ↓reduceIte, List.singleton_append]
    exact unescStr_cons_of_ne (hrefSafe_ne_pct h) t
  · simp only [h, Bool.false_eq_true, ↓reduceIte, List.cons_append, List.nil_append]
    rw [unescStr_pct]
    simp only [unhex_pctHex (show b / 16 < 16 by omega),
      unhex_pctHex (show b % 16 < 16 by omega)]
    cases unescStr t with
    | none => rfl
    | some r =>
      simp only [Option.map_some, Option.some.injEq, List.cons.injEq, and_true]
      omega

theorem unescStr_escStr {s : Str} (hs : ∀ b ∈ s, b < 256) : unescStr (escStr s) = some s := by
  induction s with
  | nil => rfl
  | cons c s ih =>
    rw [escStr_cons, unescStr_escByte_append (hs c List.mem_cons_self),
      ih (fun b hb => hs b (List.mem_cons_of_mem _ hb))]
    rfl

theorem unescPath_map_escStr {p : Path} (hp : PathWf p) : unescPath (p.map escStr) = some p := by
  induction p with
  | nil => rfl
  | cons c p ih =>
    simp only [List.map_cons, unescPath, unescStr_escStr (hp c List.mem_cons_self),
      ih (fun d hd => hp d (List.mem_cons_of_mem _ hd))]

/-- splitting what follows the first `/` of an href at `/` gives back the escaped components -/
theorem splitOn_hrefSegs (c : Str) (cs : Path) :
    splitOn 47 (escStr c ++ hrefSegs cs) = escStr c :: cs.map escStr := by
  induction cs generalizing c with
  | nil => simp [hrefSegs_nil, splitOn_no_sep (escStr_no_slash c)]
  | cons d ds ih =>
    rw [hrefSegs_cons, splitOn_first _ (escStr_no_slash c), ih d]
    rfl

theorem parseHref_hrefSegs {p : Path} (hne : p ≠ []) (hp : PathWf p) :
    parseHref (hrefSegs p) = some p := by
  cases p with
  | nil => exact absurd rfl hne
  | cons c cs =>
    rw [hrefSegs_cons, parseHref]
    simp only [↓reduceIte]
    rw [splitOn_hrefSegs]
    exact unescPath_map_escStr (p := c :: cs) hp

theorem pctHex_safe {n : Nat} (h : n < 16) : hrefSafe (pctHex n) = true := by
  have : n = 0 ∨ n = 1 ∨ n = 2 ∨ n = 3 ∨ n = 4 ∨ n = 5 ∨ n = 6 ∨ n = 7 ∨ n = 8 ∨ n = 9 ∨
      n = 10 ∨ n = 11 ∨ n = 12 ∨ n = 13 ∨ n = 14 ∨ n = 15 := by omega
  rcases this with h | h | h | h | h | h | h | h | h | h | h | h | h | h | h | h <;>
    subst h <;> decide

/-- the characters of an href: `/`, `%`, and what `_quote_for_href` leaves alone -/
theorem mem_hrefSegs_char {p : Path} (hp : PathWf p) {b : Nat} (hb : b ∈ hrefSegs p) :
    b = 47 ∨ b = 37 ∨ hrefSafe b = true := by
  unfold hrefSegs at hb
  simp only [List.mem_flatMap, List.mem_cons] at hb
  obtain ⟨c, hc, hb | hb⟩ := hb
  · exact Or.inl hb
  · unfold escStr at hb
    simp only [List.mem_flatMap] at hb
    obtain ⟨x, hx, hbx⟩ := hb
    have hx256 := hp c hc x hx
    unfold escByte at hbx
    by_cases h : hrefSafe x = true
    · simp only [h, ↓reduceIte, List.mem_singleton] at hbx
      subst hbx; exact Or.inr (Or.inr h)
    · simp only [h, Bool.false_eq_true, ↓reduceIte, List.mem_cons, List.not_mem_nil,
        or_false] at hbx
      rcases hbx with rfl | rfl | rfl
      · exact Or.inr (Or.inl rfl)
      · exact Or.inr (Or.inr (pctHex_safe (by omega)))
      · exact Or.inr (Or.inr (pctHex_safe (by omega)))

end Aiocoap.Apps
