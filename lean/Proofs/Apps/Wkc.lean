import AiocoapModel.Apps.Wkc
import Proofs.Apps.Site
/-! Helper lemmas about the link listing and the filter evaluation. -/
namespace Aiocoap.Apps

-- hrefs --------------------------------------------------------------------------------------

/-- the segments a registration path contributes to an href: `"/".join(())` and
`"/".join(("",))` are both the empty string -/
def seg (p : Path) : Path := if p = [] then [[]] else p

theorem seg_ne_nil (p : Path) : seg p ≠ [] := by
  unfold seg; split <;> simp_all

theorem joinSlash_seg (p : Path) : joinSlash (seg p) = joinSlash p := by
  unfold seg; split
  · next h => subst h; rfl
  · rfl

theorem joinSlash_cons_cons (c d : Str) (rest : Path) :
    joinSlash (c :: d :: rest) = c ++ 47 :: joinSlash (d :: rest) := rfl

theorem joinSlash_append {a b : Path} (ha : a ≠ []) (hb : b ≠ []) :
    joinSlash (a ++ b) = joinSlash a ++ 47 :: joinSlash b := by
  induction a with
  | nil => exact absurd rfl ha
  | cons c a ih =>
    cases a with
    | nil =>
      cases b with
      | nil => exact absurd rfl hb
      | cons d b => simp [joinSlash]
    | cons d a =>
      have := ih (by simp)
      simp only [List.cons_append] at this ⊢
      rw [joinSlash_cons_cons, this, joinSlash_cons_cons]
      simp

/-- the href the code builds for a link below a sub-site is the href of the concatenated
segments -/
theorem prefixLink_href (k : Path) {fp : Path} (hfp : fp ≠ []) (attrs : List (Str × Option Str)) :
    prefixLink k ⟨47 :: joinSlash fp, attrs⟩ = ⟨47 :: joinSlash (seg k ++ fp), attrs⟩ := by
  simp only [prefixLink, joinSlash_append (seg_ne_nil k) hfp, joinSlash_seg]

theorem seg_of_ne_nil {p : Path} (h : p ≠ []) : seg p = p := by simp [seg, h]

-- listing ------------------------------------------------------------------------------------

theorem mem_resLinks {l : Link} {rs : List (Path × Res)} :
    l ∈ resLinks rs ↔ ∃ q r, (q, r) ∈ rs ∧ r.hidden = false ∧ l = ⟨47 :: joinSlash q, r.attrs⟩ := by
  induction rs with
  | nil => simp [resLinks]
  | cons e rs ih =>
    obtain ⟨q, r⟩ := e
    unfold resLinks
    by_cases hh : r.hidden = true
    · simp only [hh, ↓reduceIte, ih, List.mem_cons, Prod.mk.injEq]
      constructor
      · rintro ⟨q', r', hm, hv, rfl⟩; exact ⟨q', r', Or.inr hm, hv, rfl⟩
      · rintro ⟨q', r', hm | hm, hv, rfl⟩
        · obtain ⟨rfl, rfl⟩ := hm; rw [hh] at hv; cases hv
        · exact ⟨q', r', hm, hv, rfl⟩
    · have hf : r.hidden = false := by cases h : r.hidden <;> simp_all
      simp only [hf, Bool.false_eq_true, ↓reduceIte, List.mem_cons, ih, Prod.mk.injEq]
      constructor
      · rintro (rfl | ⟨q', r', hm, hv, rfl⟩)
        · exact ⟨q, r, Or.inl ⟨rfl, rfl⟩, hf, rfl⟩
        · exact ⟨q', r', Or.inr hm, hv, rfl⟩
      · rintro ⟨q', r', hm | hm, hv, rfl⟩
        · obtain ⟨rfl, rfl⟩ := hm; exact Or.inl rfl
        · exact Or.inr ⟨q', r', hm, hv, rfl⟩

theorem length_resLinks (rs : List (Path × Res)) :
    (resLinks rs).length = (rs.filter (fun e => !e.2.hidden)).length := by
  induction rs with
  | nil => rfl
  | cons e rs ih =>
    obtain ⟨q, r⟩ := e
    unfold resLinks
    cases h : r.hidden <;> simp [h, ih]

theorem linksSubs_eq (ss : List (Path × Site)) :
    linksSubs ss = ss.flatMap (fun e => e.2.links.map (prefixLink e.1)) := by
  induction ss with
  | nil => simp [linksSubs]
  | cons e ss ih => obtain ⟨k, t⟩ := e; simp [linksSubs, ih]

theorem links_node (rs : List (Path × Res)) (ss : List (Path × Site)) :
    (Site.node rs ss).links = resLinks rs ++ ss.flatMap (fun e => e.2.links.map (prefixLink e.1)) := by
  rw [Site.links.eq_2, linksSubs_eq]

-- str.split ----------------------------------------------------------------------------------

theorem splitOn_ne_nil (sep : Nat) (l : Str) : splitOn sep l ≠ [] := by
  cases l with
  | nil => simp [splitOn]
  | cons c cs =>
    unfold splitOn
    by_cases h : c = sep
    · simp [h]
    · simp only [h, ↓reduceIte]
      split <;> simp

theorem splitOn_no_sep {sep : Nat} {a : Str} (h : sep ∉ a) : splitOn sep a = [a] := by
  induction a with
  | nil => rfl
  | cons c a ih =>
    simp only [List.mem_cons, not_or] at h
    unfold splitOn
    have : ¬ c = sep := fun e => h.1 e.symm
    simp [this, ih h.2]

theorem splitOn_first {sep : Nat} {a : Str} (b : Str) (h : sep ∉ a) :
    splitOn sep (a ++ sep :: b) = a :: splitOn sep b := by
  induction a with
  | nil => simp [splitOn]
  | cons c a ih =>
    simp only [List.mem_cons, not_or] at h
    have : ¬ c = sep := fun e => h.1 e.symm
    simp only [List.cons_append]
    rw [splitOn]
    simp [this, ih h.2]

/-- split a string at the first separator, if any -/
theorem first_sep (sep : Nat) (l : Str) :
    sep ∉ l ∨ ∃ a b, l = a ++ sep :: b ∧ sep ∉ a := by
  induction l with
  | nil => left; simp
  | cons c l ih =>
    by_cases h : c = sep
    · right; exact ⟨[], l, by simp [h], by simp⟩
    · rcases ih with ih | ⟨a, b, rfl, ha⟩
      · left; simp only [List.mem_cons, not_or]; exact ⟨fun e => h e.symm, ih⟩
      · right
        refine ⟨c :: a, b, by simp, ?_⟩
        simp only [List.mem_cons, not_or]; exact ⟨fun e => h e.symm, ha⟩

theorem mem_splitOn_after {sep : Nat} {x : Str} (a b : Str) (h : x ∈ splitOn sep b) :
    x ∈ splitOn sep (a ++ sep :: b) := by
  generalize hn : a.length = n
  induction n using Nat.strongRecOn generalizing a with
  | _ n ih =>
    rcases first_sep sep a with hno | ⟨a1, a2, rfl, ha1⟩
    · rw [splitOn_first b hno]; exact List.mem_cons_of_mem _ h
    · rw [List.append_assoc, List.cons_append, splitOn_first _ ha1]
      refine List.mem_cons_of_mem _ (ih a2.length ?_ a2 rfl)
      subst hn; simp; omega

/-- the entries of `val.split(sep)` are exactly the maximal separator-free pieces of `val` -/
theorem mem_splitOn {sep : Nat} {part val : Str} :
    part ∈ splitOn sep val ↔
      sep ∉ part ∧ ∃ pre post, val = pre ++ part ++ post ∧
        (pre = [] ∨ ∃ pre', pre = pre' ++ [sep]) ∧ (post = [] ∨ ∃ post', post = sep :: post') := by
  constructor
  · generalize hn : val.length = n
    induction n using Nat.strongRecOn generalizing val part with
    | _ n ih =>
      intro hmem
      rcases first_sep sep val with hno | ⟨a, b, rfl, ha⟩
      · rw [splitOn_no_sep hno, List.mem_singleton] at hmem
        subst hmem
        exact ⟨hno, [], [], by simp, Or.inl rfl, Or.inl rfl⟩
      · rw [splitOn_first b ha, List.mem_cons] at hmem
        rcases hmem with rfl | hmem
        · exact ⟨ha, [], sep :: b, by simp, Or.inl rfl, Or.inr ⟨b, rfl⟩⟩
        · obtain ⟨h1, pre, post, rfl, hpre, hpost⟩ :=
            ih b.length (by subst hn; simp; omega) rfl hmem
          refine ⟨h1, a ++ sep :: pre, post, by simp, Or.inr ?_, hpost⟩
          rcases hpre with rfl | ⟨pre', rfl⟩
          · exact ⟨a, rfl⟩
          · exact ⟨a ++ sep :: pre', by simp⟩
  · rintro ⟨hno, pre, post, rfl, hpre, hpost⟩
    have hhead : part ∈ splitOn sep (part ++ post) := by
      rcases hpost with rfl | ⟨post', rfl⟩
      · simp [splitOn_no_sep hno]
      · rw [splitOn_first _ hno]; exact List.mem_cons_self
    rcases hpre with rfl | ⟨pre', rfl⟩
    · simpa using hhead
    · have := mem_splitOn_after pre' (part ++ post) hhead
      simpa [List.append_assoc] using this

-- filter pieces ------------------------------------------------------------------------------

theorem mem_attributeValues {l : Link} {k val : Str} :
    val ∈ attributeValues l k ↔
      ∃ key, (key, some val) ∈ l.attrs ∧ lowerAscii key = lowerAscii k := by
  unfold attributeValues
  simp only [List.mem_filterMap]
  constructor
  · rintro ⟨⟨key, v⟩, hm, h⟩
    by_cases hk : lowerAscii key = lowerAscii k
    · simp only [hk, ↓reduceIte] at h
      subst h; exact ⟨key, hm, hk⟩
    · simp [hk] at h
  · rintro ⟨key, hm, hk⟩
    exact ⟨(key, some val), hm, by simp [hk]⟩

theorem matchExp_iff (v x : Str) :
    matchExp v x = true ↔
      if v.getLast? = some 42 then v.dropLast <+: x else x = v := by
  unfold matchExp
  split <;> simp [List.isPrefixOf_iff_prefix]

theorem splitEq_some {q k v : Str} (h : splitEq q = some (k, v)) :
    q = k ++ 61 :: v ∧ 61 ∉ k := by
  induction q generalizing k with
  | nil => cases h
  | cons c cs ih =>
    unfold splitEq at h
    by_cases hc : c = 61
    · simp only [hc, ↓reduceIte, Option.some.injEq, Prod.mk.injEq] at h
      obtain ⟨rfl, rfl⟩ := h
      simp [hc]
    · simp only [hc, ↓reduceIte, Option.map_eq_some_iff, Prod.mk.injEq] at h
      obtain ⟨⟨k', v'⟩, hs, rfl, rfl⟩ := h
      obtain ⟨h1, h2⟩ := ih hs
      refine ⟨by simp [h1], ?_⟩
      simp only [List.mem_cons, not_or]
      exact ⟨fun e => hc e.symm, h2⟩

theorem splitEq_of_eq {k v : Str} (hk : 61 ∉ k) : splitEq (k ++ 61 :: v) = some (k, v) := by
  induction k with
  | nil => simp [splitEq]
  | cons c k ih =>
    simp only [List.mem_cons, not_or] at hk
    have : ¬ c = 61 := fun e => hk.1 e.symm
    simp [splitEq, this, ih hk.2]

theorem splitEq_none {q : Str} (h : splitEq q = none) : 61 ∉ q := by
  induction q with
  | nil => simp
  | cons c cs ih =>
    unfold splitEq at h
    by_cases hc : c = 61
    · simp [hc] at h
    · simp only [hc, ↓reduceIte, Option.map_eq_none_iff] at h
      simp only [List.mem_cons, not_or]
      exact ⟨fun e => hc e.symm, ih h⟩

end Aiocoap.Apps
