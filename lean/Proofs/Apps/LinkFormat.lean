import AiocoapModel.Apps.Wkc
import Proofs.Apps.Wkc
/-! A reader for `application/link-format` written from the ABNF of RFC 6690 §2 (specification side:
it shares nothing with the model of `Link.__str__`), and the proof that it gives back every link
list the model's writer (`linkFormatStr`) produces.

    link-value-list = [ link-value *( "," link-value ) ]
    link-value      = "<" URI-Reference ">" *( ";" link-param )
    link-param      = parmname [ "=" quoted-string ]
    quoted-string   = DQUOTE *( qdtext / quoted-pair ) DQUOTE        (RFC 2616 §2.2)
    quoted-pair     = "\" CHAR        -- stands for that CHAR

(`ptoken` values are not read: the writer never produces one.)  The reader is one structural
recursion over the text with an explicit mode. -/
namespace Aiocoap.Apps

/-- RFC 5987 §3.2.1 `attr-char`, and `*` (the `title*` form of RFC 5988) -/
def nameChar (c : Nat) : Bool :=
  (65 ≤ c && c ≤ 90) || (97 ≤ c && c ≤ 122) || (48 ≤ c && c ≤ 57) ||
  c == 33 || c == 35 || c == 36 || c == 38 || c == 43 || c == 45 || c == 46 ||
  c == 94 || c == 95 || c == 96 || c == 124 || c == 126 || c == 42

/-- where the reader is -/
inductive Mode where
  | start (first : Bool)        -- a link-value has to begin (`first`: nothing read yet, the end is fine)
  | href (h : Str)              -- inside `<…>`, characters so far (latest first)
  | params                      -- behind `>` or a complete link-param
  | name (n : Str)              -- inside a parmname (latest first)
  | eq (n : Str)                -- behind `name=`
  | quoted (n v : Str)          -- inside the quoted-string of `name`, value so far (latest first)
  | esc (n v : Str)             -- behind the `\` of a quoted-pair

/-- the link being read: its target and its parameters, latest first -/
structure Cur where
  href : Str
  attrs : List (Str × Option Str)

def Cur.push (c : Cur) (a : Str × Option Str) : Cur := ⟨c.href, a :: c.attrs⟩
def Cur.link (c : Cur) : Link := ⟨c.href, c.attrs.reverse⟩
def Cur.none : Cur := ⟨[], []⟩

/-- `done`: the complete links, latest first -/
def readGo (done : List Link) (cur : Cur) : Mode → Str → Option (List Link)
  | .start first, [] => if first then some done.reverse else none
  | .start _, c :: r => if c = 60 then readGo done cur (.href []) r else none
  | .href _, [] => none
  | .href h, c :: r =>
    if c = 62 then readGo done ⟨h.reverse, []⟩ .params r else readGo done cur (.href (c :: h)) r
  | .params, [] => some (cur.link :: done).reverse
  | .params, c :: r =>
    if c = 59 then readGo done cur (.name []) r
    else if c = 44 then readGo (cur.link :: done) Cur.none (.start false) r
    else none
  | .name n, [] =>
    if n = [] then none else some ((cur.push (n.reverse, none)).link :: done).reverse
  | .name n, c :: r =>
    if nameChar c then readGo done cur (.name (c :: n)) r
    else if n = [] then none
    else if c = 61 then readGo done cur (.eq n) r
    else if c = 59 then readGo done (cur.push (n.reverse, none)) (.name []) r
    else if c = 44 then
      readGo ((cur.push (n.reverse, none)).link :: done) Cur.none (.start false) r
    else none
  | .eq _, [] => none
  | .eq n, c :: r => if c = 34 then readGo done cur (.quoted n []) r else none
  | .quoted _ _, [] => none
  | .quoted n v, c :: r =>
    if c = 34 then readGo done (cur.push (n.reverse, some v.reverse)) .params r
    else if c = 92 then readGo done cur (.esc n v) r
    else readGo done cur (.quoted n (c :: v)) r
  | .esc _ _, [] => none
  | .esc n v, c :: r => readGo done cur (.quoted n (c :: v)) r

/-- RFC 6690 reader: the links of a link-format text, `none` if it is not of that form -/
def readLinkFormat (s : Str) : Option (List Link) := readGo [] Cur.none (.start true) s

/-- a link the format can carry: no `>` in the target, parameter names are parmnames -/
def LinkWf (l : Link) : Prop :=
  62 ∉ l.href ∧ ∀ a ∈ l.attrs, a.1 ≠ [] ∧ ∀ c ∈ a.1, nameChar c = true

/-- what may follow a link-param: the end, the next link-param, the next link-value -/
def Term (rest : Str) : Prop := rest = [] ∨ ∃ r, rest = 59 :: r ∨ rest = 44 :: r

-- the writer, one character at a time ---------------------------------------------------------

theorem quoteValue_nil : quoteValue [] = [] := rfl

theorem quoteValue_cons (c : Nat) (w : Str) :
    quoteValue (c :: w) =
      (if c = 92 then [92, 92] else if c = 34 then [92, 34] else [c]) ++ quoteValue w := by
  unfold quoteValue escQuote escBackslash
  rw [List.flatMap_cons, List.flatMap_append]
  congr 1
  by_cases h92 : c = 92
  · subst h92; rfl
  · by_cases h34 : c = 34
    · subst h34; rfl
    · simp [h92, h34]

-- the reader on what the writer wrote ---------------------------------------------------------

theorem readGo_quoted (done : List Link) (cur : Cur) (n : Str) :
    ∀ (w v rest : Str), readGo done cur (.quoted n v) (quoteValue w ++ 34 :: rest) =
      readGo done (cur.push (n.reverse, some (v.reverse ++ w))) .params rest := by
  intro w
  induction w with
  | nil => intro v rest; simp [quoteValue_nil, readGo]
  | cons c w ih =>
    intro v rest
    rw [quoteValue_cons]
    by_cases h92 : c = 92
    · subst h92
      simp only [↓reduceIte, List.cons_append, List.nil_append]
      rw [readGo]
      simp only [Nat.reduceEqDiff, ↓reduceIte]
      rw [readGo, ih]
      simp
    · by_cases h34 : c = 34
      · subst h34
        simp only [Nat.reduceEqDiff, ↓reduceIte, List.cons_append, List.nil_append]
        rw [readGo]
        simp only [Nat.reduceEqDiff, ↓reduceIte]
        rw [readGo, ih]
        simp
      · simp only [h92, h34, ↓reduceIte, List.cons_append, List.nil_append]
        rw [readGo]
        simp only [h92, h34, ↓reduceIte]
        rw [ih]
        simp

theorem readGo_name (done : List Link) (cur : Cur) :
    ∀ (k n rest : Str), (∀ c ∈ k, nameChar c = true) →
      readGo done cur (.name n) (k ++ rest) = readGo done cur (.name (k.reverse ++ n)) rest := by
  intro k
  induction k with
  | nil => intro n rest _; rfl
  | cons c k ih =>
    intro n rest h
    have hc : nameChar c = true := h c (by simp)
    rw [List.cons_append, readGo]
    simp only [hc, ↓reduceIte]
    rw [ih _ _ (fun x hx => h x (by simp [hx]))]
    simp

/-- a parameter without a value ends where the next thing begins -/
theorem readGo_name_end (done : List Link) (cur : Cur) (n rest : Str) (hn : n ≠ [])
    (hrest : Term rest) :
    readGo done cur (.name n) rest = readGo done (cur.push (n.reverse, none)) .params rest := by
  rcases hrest with rfl | ⟨r, rfl | rfl⟩
  · simp [readGo, hn]
  · rw [readGo, readGo]
    have : nameChar 59 = false := by decide
    simp [this, hn]
  · rw [readGo, readGo]
    have : nameChar 44 = false := by decide
    simp [this, hn]

theorem readGo_attr (done : List Link) (cur : Cur) (a : Str × Option Str) (rest : Str)
    (hne : a.1 ≠ []) (hname : ∀ c ∈ a.1, nameChar c = true) (hrest : Term rest) :
    readGo done cur .params (59 :: (attrStr a ++ rest)) = readGo done (cur.push a) .params rest := by
  obtain ⟨k, val⟩ := a
  have hrev : k.reverse ≠ [] := by simpa using hne
  rw [readGo]
  simp only [↓reduceIte]
  cases val with
  | none =>
    simp only [attrStr]
    rw [readGo_name done cur k [] rest hname, List.append_nil,
      readGo_name_end done cur _ rest hrev hrest, List.reverse_reverse]
  | some v =>
    simp only [attrStr]
    have e : k ++ 61 :: 34 :: (quoteValue v ++ [34]) ++ rest =
        k ++ (61 :: 34 :: (quoteValue v ++ 34 :: rest)) := by simp
    rw [e, readGo_name done cur k [] _ hname, List.append_nil, readGo]
    have h61 : nameChar 61 = false := by decide
    simp only [h61, Bool.false_eq_true, ↓reduceIte, hrev]
    rw [readGo]
    simp only [↓reduceIte]
    rw [readGo_quoted]
    simp

theorem term_flatMap (as : List (Str × Option Str)) (rest : Str) (hrest : Term rest) :
    Term (as.flatMap (fun a => 59 :: attrStr a) ++ rest) := by
  cases as with
  | nil => simpa using hrest
  | cons b bs =>
    exact Or.inr ⟨attrStr b ++ (bs.flatMap (fun a => 59 :: attrStr a) ++ rest),
      Or.inl (by simp [List.flatMap_cons])⟩

theorem readGo_attrs (done : List Link) :
    ∀ (as : List (Str × Option Str)) (cur : Cur) (rest : Str),
      (∀ a ∈ as, a.1 ≠ [] ∧ ∀ c ∈ a.1, nameChar c = true) → Term rest →
      readGo done cur .params (as.flatMap (fun a => 59 :: attrStr a) ++ rest) =
        readGo done (as.foldl Cur.push cur) .params rest := by
  intro as
  induction as with
  | nil => intro cur rest _ _; rfl
  | cons a as ih =>
    intro cur rest h hrest
    have ha := h a (by simp)
    have e : (a :: as).flatMap (fun a => 59 :: attrStr a) ++ rest =
        59 :: (attrStr a ++ (as.flatMap (fun a => 59 :: attrStr a) ++ rest)) := by
      simp [List.flatMap_cons]
    rw [e, readGo_attr done cur a _ ha.1 ha.2 (term_flatMap as rest hrest),
      ih _ _ (fun b hb => h b (by simp [hb])) hrest]
    rfl

theorem readGo_href (done : List Link) :
    ∀ (h acc : Str) (cur : Cur) (r : Str), 62 ∉ h →
      readGo done cur (.href acc) (h ++ 62 :: r) =
        readGo done ⟨acc.reverse ++ h, []⟩ .params r := by
  intro h
  induction h with
  | nil => intro acc cur r _; simp [readGo]
  | cons c h ih =>
    intro acc cur r hno
    have hc : c ≠ 62 := fun e => hno (by simp [e])
    rw [List.cons_append, readGo]
    simp only [hc, ↓reduceIte]
    rw [ih _ _ _ (fun hm => hno (by simp [hm]))]
    simp

theorem foldl_push_attrs (as : List (Str × Option Str)) (cur : Cur) :
    (as.foldl Cur.push cur).href = cur.href ∧
      (as.foldl Cur.push cur).attrs = as.reverse ++ cur.attrs := by
  induction as generalizing cur with
  | nil => simp
  | cons a as ih =>
    obtain ⟨h1, h2⟩ := ih (cur.push a)
    rw [List.foldl_cons, h1, h2]
    simp [Cur.push]

theorem foldl_push_link (l : Link) : (l.attrs.foldl Cur.push ⟨l.href, []⟩).link = l := by
  obtain ⟨h1, h2⟩ := foldl_push_attrs l.attrs ⟨l.href, []⟩
  cases l
  simp_all [Cur.link]

/-- one link-value, followed by the end or a comma -/
theorem readGo_link (done : List Link) (cur : Cur) (b : Bool) (l : Link) (rest : Str)
    (hl : LinkWf l) (hrest : Term rest) :
    readGo done cur (.start b) (linkStr l ++ rest) =
      readGo done (l.attrs.foldl Cur.push ⟨l.href, []⟩) .params rest := by
  unfold linkStr
  rw [List.cons_append, readGo]
  simp only [↓reduceIte]
  have e : l.href ++ 62 :: l.attrs.flatMap (fun a => 59 :: attrStr a) ++ rest =
      l.href ++ 62 :: (l.attrs.flatMap (fun a => 59 :: attrStr a) ++ rest) := by simp
  rw [e, readGo_href done l.href [] cur _ hl.1, readGo_attrs done l.attrs _ rest hl.2 hrest]
  rfl

theorem readGo_links : ∀ (ls : List Link) (l : Link) (done : List Link) (cur : Cur)
    (b : Bool), (∀ x ∈ l :: ls, LinkWf x) →
      readGo done cur (.start b) (linkFormatStr (l :: ls)) = some (done.reverse ++ l :: ls) := by
  intro ls
  induction ls with
  | nil =>
    intro l done cur b h
    have := readGo_link done cur b l [] (h l (by simp)) (Or.inl rfl)
    rw [List.append_nil] at this
    rw [linkFormatStr, this, readGo, foldl_push_link]
    simp
  | cons m ls ih =>
    intro l done cur b h
    rw [linkFormatStr, readGo_link done cur b l _ (h l (by simp)) (Or.inr ⟨_, Or.inr rfl⟩),
      readGo]
    simp only [Nat.reduceEqDiff, ↓reduceIte]
    rw [foldl_push_link, ih m (l :: done) Cur.none false (fun x hx => h x (by simp [hx]))]
    simp

/-- **the reader gives back what the writer wrote**, for every list of links the format can carry
(any bytes in the attribute values: backslashes, quotes, commas, semicolons, `<`, `>`, non-ASCII) -/
theorem readLinkFormat_linkFormatStr (ls : List Link) (h : ∀ l ∈ ls, LinkWf l) :
    readLinkFormat (linkFormatStr ls) = some ls := by
  cases ls with
  | nil => rfl
  | cons l ls =>
    unfold readLinkFormat
    rw [readGo_links ls l [] Cur.none true h]
    rfl

-- hrefs of the site listing never contain `>` -------------------------------------------------

theorem pctHex_ne_gt (n : Nat) : pctHex n ≠ 62 := by
  unfold pctHex; split <;> omega

theorem escStr_no_gt (s : Str) : 62 ∉ escStr s := by
  unfold escStr
  simp only [List.mem_flatMap, not_exists, not_and]
  intro c _ hm
  unfold escByte at hm
  by_cases hs : hrefSafe c = true
  · simp only [hs, ↓reduceIte, List.mem_singleton] at hm
    subst hm
    exact absurd hs (by decide)
  · simp only [hs, Bool.false_eq_true, ↓reduceIte, List.mem_cons, List.not_mem_nil,
      or_false] at hm
    rcases hm with h | h | h
    · omega
    · exact pctHex_ne_gt _ h.symm
    · exact pctHex_ne_gt _ h.symm

theorem hrefSegs_no_gt (p : Path) : 62 ∉ hrefSegs p := by
  unfold hrefSegs
  simp only [List.mem_flatMap, List.mem_cons, not_exists, not_and]
  intro c _ hm
  rcases hm with h | h
  · omega
  · exact escStr_no_gt c h

end Aiocoap.Apps
