import Proofs.Uri.Utf8
import Proofs.Uri.Percent
/-! The Uri-Host of a registered name (C16): `set_request_uri` decodes
`parsed.netloc.partition(":")[0]` (the fixed code; ASCII lower case only); the earlier proofs
speak of `parsed.hostname` (lower-cased up to the first `%`).  For an authority without user info
and without brackets both give the same option value. -/
namespace Aiocoap.Uri

theorem lowerChar_ne_37 {c : Nat} (h : c ≠ 37) : lowerChar c ≠ 37 := by
  unfold lowerChar isUpper
  split
  · rename_i hu
    simp only [Bool.and_eq_true, decide_eq_true_eq] at hu
    omega
  · exact h

theorem lowerChar_idem (c : Nat) : lowerChar (lowerChar c) = lowerChar c :=
  lowerChar_of_not_upper (isUpper_lowerChar c)

/-- lower-casing the part before the first `%` first does not change the decoded, lower-cased
text -/
theorem asciiLower_unquote_lowerUntilPct (x : Bytes) :
    asciiLower (unquote (lowerUntilPct x)) = asciiLower (unquote x) := by
  induction x with
  | nil => rfl
  | cons c r ih =>
    by_cases hc : c = 37
    · subst hc; simp [lowerUntilPct]
    · rw [lowerUntilPct, if_neg hc, unquote_cons_ne _ (lowerChar_ne_37 hc), unquote_cons_ne _ hc]
      simp only [asciiLower, List.map_cons] at ih ⊢
      rw [ih, lowerChar_idem]

theorem unquoteStrict_lowerUntilPct (x : Bytes) :
    (unquoteStrict (lowerUntilPct x)).map asciiLower = (unquoteStrict x).map asciiLower := by
  unfold unquoteStrict
  have hv : utf8Valid (unquote (lowerUntilPct x)) = utf8Valid (unquote x) := by
    rw [← utf8Valid_asciiLower (unquote (lowerUntilPct x)), asciiLower_unquote_lowerUntilPct,
      utf8Valid_asciiLower]
  rw [hv]
  split
  · simp [asciiLower_unquote_lowerUntilPct]
  · rfl

/-- the bracket test passed and the authority does not start with `[`: no bracket in it -/
theorem no_bracket_of_literalOk {n : Bytes} (hlo : literalOk n = true)
    (hhead : (n.head? == some 91) = false) : 91 ∉ n ∧ 93 ∉ n := by
  unfold literalOk at hlo
  by_cases hb : (n.contains 91 || n.contains 93) = true
  · rw [if_pos hb] at hlo
    simp only [Bool.and_eq_true, beq_iff_eq] at hlo
    have hh := hlo.1.1.1
    cases n with
    | nil => simp [before, takeUntil] at hh
    | cons x r =>
      by_cases hx : x = 93
      · subst hx; simp [before, takeUntil] at hh
      · have : before 93 (x :: r) = x :: before 93 r := by simp [before, takeUntil, hx]
        rw [this] at hh
        simp only [List.head?_cons, Option.some.injEq] at hh
        subst hh
        simp at hhead
  · simp only [Bool.or_eq_true, List.contains_eq_mem, decide_eq_true_eq, not_or] at hb
    exact hb

/-- `.hostname` of an authority without user info and brackets -/
theorem hostnameOf_name {n hn : Bytes} (hhn : hostnameOf n = some hn) (hu : hasUserinfo n = false)
    (hlo : literalOk n = true) (hhead : (n.head? == some 91) = false) :
    hn = lowerUntilPct (before 58 n) := by
  obtain ⟨h91, _⟩ := no_bracket_of_literalOk hlo hhead
  have h64 : 64 ∉ n := by
    intro hm
    unfold hasUserinfo at hu
    rw [contains_true_of_mem hm] at hu
    cases hu
  unfold hostnameOf rawHostname hostinfoOf at hhn
  rw [afterLast_of_not_mem h64] at hhn
  simp only [contains_false_of_not_mem h91, Bool.false_eq_true, ↓reduceIte] at hhn
  split at hhn
  · cases hhn
  · injection hhn with hhn; exact hhn.symm

/-- the Uri-Host value computed from the netloc text is the one computed from `.hostname` -/
theorem uriHost_bridge {n hn : Bytes} (hhn : hostnameOf n = some hn) (hu : hasUserinfo n = false)
    (hlo : literalOk n = true) (hhead : (n.head? == some 91) = false) :
    (unquoteStrict (before 58 n)).map asciiLower = (unquoteStrict hn).map asciiLower := by
  rw [hostnameOf_name hhn hu hlo hhead, unquoteStrict_lowerUntilPct]

end Aiocoap.Uri
