import AiocoapModel.Uri.Text
/-! Lemmas about the text primitives of the URI model (C16). -/
namespace Aiocoap.Uri

-- takeUntil / dropUntil ------------------------------------------------------------------

theorem takeUntil_append_hit {p : Nat → Bool} {a : Bytes} {d : Nat} (r : Bytes)
    (ha : ∀ x ∈ a, p x = false) (hd : p d = true) : takeUntil p (a ++ d :: r) = a := by
  induction a with
  | nil => simp [takeUntil, hd]
  | cons x a ih =>
    have hx : p x = false := ha x (by simp)
    simp only [List.cons_append, takeUntil, hx]
    rw [ih (fun y hy => ha y (by simp [hy]))]
    simp

theorem dropUntil_append_hit {p : Nat → Bool} {a : Bytes} {d : Nat} (r : Bytes)
    (ha : ∀ x ∈ a, p x = false) (hd : p d = true) : dropUntil p (a ++ d :: r) = d :: r := by
  induction a with
  | nil => simp [dropUntil, hd]
  | cons x a ih =>
    have hx : p x = false := ha x (by simp)
    simp only [List.cons_append, dropUntil, hx]
    rw [ih (fun y hy => ha y (by simp [hy]))]
    simp

theorem takeUntil_none {p : Nat → Bool} {a : Bytes} (ha : ∀ x ∈ a, p x = false) :
    takeUntil p a = a := by
  induction a with
  | nil => rfl
  | cons x a ih =>
    have hx : p x = false := ha x (by simp)
    simp only [takeUntil, hx]
    rw [ih (fun y hy => ha y (by simp [hy]))]
    simp

theorem dropUntil_none {p : Nat → Bool} {a : Bytes} (ha : ∀ x ∈ a, p x = false) :
    dropUntil p a = [] := by
  induction a with
  | nil => rfl
  | cons x a ih =>
    have hx : p x = false := ha x (by simp)
    simp only [dropUntil, hx]
    rw [ih (fun y hy => ha y (by simp [hy]))]
    simp

theorem mem_takeUntil {p : Nat → Bool} {s : Bytes} {x : Nat} (h : x ∈ takeUntil p s) :
    x ∈ s ∧ p x = false := by
  induction s with
  | nil => simp [takeUntil] at h
  | cons y s ih =>
    simp only [takeUntil] at h
    by_cases hy : p y = true
    · simp [hy] at h
    · simp only [hy] at h
      simp only [Bool.false_eq_true, ↓reduceIte, List.mem_cons] at h
      rcases h with rfl | h
      · exact ⟨by simp, by simpa using hy⟩
      · exact ⟨by simp [(ih h).1], (ih h).2⟩

theorem mem_dropUntil {p : Nat → Bool} {s : Bytes} {x : Nat} (h : x ∈ dropUntil p s) : x ∈ s := by
  induction s with
  | nil => simp [dropUntil] at h
  | cons y s ih =>
    simp only [dropUntil] at h
    by_cases hy : p y = true
    · simpa [hy] using h
    · simp only [hy] at h
      simp only [Bool.false_eq_true, ↓reduceIte] at h
      simp [ih h]

theorem takeUntil_append_dropUntil (p : Nat → Bool) (s : Bytes) :
    takeUntil p s ++ dropUntil p s = s := by
  induction s with
  | nil => rfl
  | cons y s ih =>
    by_cases hy : p y = true
    · simp [takeUntil, dropUntil, hy]
    · simp [takeUntil, dropUntil, hy, ih]

/-- the remainder after `takeUntil` is empty or starts with a hit -/
theorem dropUntil_head {p : Nat → Bool} {s : Bytes} {d : Nat} {r : Bytes}
    (h : dropUntil p s = d :: r) : p d = true := by
  induction s with
  | nil => simp [dropUntil] at h
  | cons y s ih =>
    simp only [dropUntil] at h
    by_cases hy : p y = true
    · simp only [hy, ↓reduceIte, List.cons.injEq] at h
      rw [← h.1]; exact hy
    · simp only [hy] at h
      exact ih h

-- before / after -------------------------------------------------------------------------

theorem beq_false_of_not_mem {c : Nat} {a : Bytes} (h : c ∉ a) : ∀ x ∈ a, (x == c) = false := by
  intro x hx
  simp only [beq_eq_false_iff_ne, ne_eq]
  rintro rfl
  exact h hx

theorem before_append {c : Nat} {a : Bytes} (r : Bytes) (h : c ∉ a) :
    before c (a ++ c :: r) = a :=
  takeUntil_append_hit r (beq_false_of_not_mem h) (by simp)

theorem after_append {c : Nat} {a : Bytes} (r : Bytes) (h : c ∉ a) :
    after c (a ++ c :: r) = r := by
  unfold after
  rw [dropUntil_append_hit r (beq_false_of_not_mem h) (by simp)]
  rfl

theorem before_of_not_mem {c : Nat} {a : Bytes} (h : c ∉ a) : before c a = a :=
  takeUntil_none (beq_false_of_not_mem h)

theorem after_of_not_mem {c : Nat} {a : Bytes} (h : c ∉ a) : after c a = [] := by
  unfold after
  rw [dropUntil_none (beq_false_of_not_mem h)]
  rfl

theorem mem_before {c : Nat} {s : Bytes} {x : Nat} (h : x ∈ before c s) : x ∈ s ∧ x ≠ c := by
  have := mem_takeUntil h
  exact ⟨this.1, by simpa using this.2⟩

theorem not_mem_before (c : Nat) (s : Bytes) : c ∉ before c s :=
  fun h => (mem_before h).2 rfl

theorem mem_after {c : Nat} {s : Bytes} {x : Nat} (h : x ∈ after c s) : x ∈ s := by
  unfold after at h
  exact mem_dropUntil (List.mem_of_mem_drop h)

/-- a text splits at the first occurrence of `c` -/
theorem before_after_eq {c : Nat} {s : Bytes} (h : c ∈ s) :
    s = before c s ++ c :: after c s := by
  induction s with
  | nil => simp at h
  | cons y s ih =>
    by_cases hy : y = c
    · subst hy; simp [before, after, takeUntil, dropUntil]
    · have hs : c ∈ s := by
        simp only [List.mem_cons] at h
        rcases h with h | h
        · exact absurd h.symm hy
        · exact h
      have := ih hs
      simp only [before, after, takeUntil, dropUntil, beq_iff_eq, hy, ↓reduceIte,
        List.cons_append, List.cons.injEq, true_and]
      simpa [before, after] using this

-- afterLast / beforeLast -----------------------------------------------------------------

theorem afterLast_of_not_mem {c : Nat} {s : Bytes} (h : c ∉ s) : afterLast c s = s := by
  induction s with
  | nil => rfl
  | cons y s ih =>
    have hy : y ≠ c := fun e => h (by simp [e])
    have hs : c ∉ s := fun e => h (by simp [e])
    simp [afterLast, hs, hy]

theorem mem_afterLast {c : Nat} {s : Bytes} {x : Nat} (h : x ∈ afterLast c s) : x ∈ s := by
  induction s with
  | nil => simp [afterLast] at h
  | cons y s ih =>
    simp only [afterLast] at h
    by_cases hc : s.contains c = true
    · simp only [hc, ↓reduceIte] at h
      simp [ih h]
    · simp only [hc, Bool.false_eq_true, ↓reduceIte] at h
      by_cases hy : (y == c) = true
      · simp only [hy, ↓reduceIte] at h; simp [h]
      · simp only [hy, Bool.false_eq_true, ↓reduceIte] at h; exact h

theorem not_mem_afterLast (c : Nat) (s : Bytes) : c ∉ afterLast c s := by
  induction s with
  | nil => simp [afterLast]
  | cons y s ih =>
    simp only [afterLast, List.contains_eq_mem, decide_eq_true_eq]
    by_cases hc : c ∈ s
    · simpa [hc] using ih
    · simp only [hc, ↓reduceIte]
      by_cases hy : (y == c) = true
      · simpa [hy] using hc
      · simp only [hy, Bool.false_eq_true, ↓reduceIte, List.mem_cons, not_or]
        exact ⟨fun e => hy (by simp [e]), hc⟩

-- splitOn / joinWith ---------------------------------------------------------------------

theorem splitOn_ne_nil (c : Nat) (s : Bytes) : splitOn c s ≠ [] := by
  induction s with
  | nil => simp [splitOn]
  | cons y s ih =>
    simp only [splitOn]
    split
    · simp
    · split <;> simp

theorem splitOn_of_not_mem {c : Nat} {a : Bytes} (h : c ∉ a) : splitOn c a = [a] := by
  induction a with
  | nil => rfl
  | cons y a ih =>
    have hy : (y == c) = false := by
      simp only [beq_eq_false_iff_ne, ne_eq]; rintro rfl; exact h (by simp)
    have ha : c ∉ a := fun e => h (by simp [e])
    simp [splitOn, hy, ih ha]

theorem splitOn_append_sep {c : Nat} {a : Bytes} (r : Bytes) (h : c ∉ a) :
    splitOn c (a ++ c :: r) = a :: splitOn c r := by
  induction a with
  | nil => simp [splitOn]
  | cons y a ih =>
    have hy : (y == c) = false := by
      simp only [beq_eq_false_iff_ne, ne_eq]; rintro rfl; exact h (by simp)
    have ha : c ∉ a := fun e => h (by simp [e])
    simp [splitOn, hy, ih ha]

theorem splitOn_joinWith {c : Nat} {segs : List Bytes} (hne : segs ≠ [])
    (h : ∀ s ∈ segs, c ∉ s) : splitOn c (joinWith c segs) = segs := by
  induction segs with
  | nil => exact absurd rfl hne
  | cons s t ih =>
    cases t with
    | nil => simpa [joinWith] using splitOn_of_not_mem (h s (by simp))
    | cons s' t' =>
      simp only [joinWith]
      rw [splitOn_append_sep _ (h s (by simp))]
      rw [ih (by simp) (fun x hx => h x (by simp [hx]))]

/-- every piece of a split is free of the separator -/
theorem not_mem_of_mem_splitOn {c : Nat} {s : Bytes} {x : Bytes} (h : x ∈ splitOn c s) :
    c ∉ x := by
  induction s generalizing x with
  | nil => simp [splitOn] at h; subst h; simp
  | cons y s ih =>
    simp only [splitOn] at h
    by_cases hy : (y == c) = true
    · simp only [hy, ↓reduceIte, List.mem_cons] at h
      rcases h with rfl | h
      · simp
      · exact ih h
    · simp only [hy, Bool.false_eq_true, ↓reduceIte] at h
      cases hsp : splitOn c s with
      | nil => exact absurd hsp (splitOn_ne_nil c s)
      | cons hd tl =>
        rw [hsp] at h ih
        simp only [List.mem_cons] at h
        rcases h with rfl | h
        · have := ih (x := hd) (by simp)
          simp only [List.mem_cons, not_or]
          exact ⟨fun e => hy (by simp [e]), this⟩
        · exact ih (by simp [h])

theorem mem_of_mem_splitOn {c : Nat} {s : Bytes} {x : Bytes} {b : Nat} (h : x ∈ splitOn c s)
    (hb : b ∈ x) : b ∈ s := by
  induction s generalizing x with
  | nil => simp [splitOn] at h; subst h; simp at hb
  | cons y s ih =>
    simp only [splitOn] at h
    by_cases hy : (y == c) = true
    · simp only [hy, ↓reduceIte, List.mem_cons] at h
      rcases h with rfl | h
      · simp at hb
      · simp [ih h hb]
    · simp only [hy, Bool.false_eq_true, ↓reduceIte] at h
      cases hsp : splitOn c s with
      | nil => exact absurd hsp (splitOn_ne_nil c s)
      | cons hd tl =>
        rw [hsp] at h ih
        simp only [List.mem_cons] at h
        rcases h with rfl | h
        · simp only [List.mem_cons] at hb
          rcases hb with rfl | hb
          · simp
          · simp [ih (x := hd) (by simp) hb]
        · simp [ih (by simp [h]) hb]

-- decimal numbers ------------------------------------------------------------------------

theorem natToDec_digits (n : Nat) : ∀ c ∈ natToDec n, isDigit c = true := by
  induction n using Nat.strongRecOn with
  | _ n ih =>
    rw [natToDec]
    split
    · intro c hc
      simp only [List.mem_singleton] at hc
      subst hc
      simp [isDigit]; omega
    · intro c hc
      simp only [List.mem_append, List.mem_singleton] at hc
      rcases hc with hc | rfl
      · exact ih (n / 10) (by omega) c hc
      · simp [isDigit]; omega

theorem natToDec_ne_nil (n : Nat) : natToDec n ≠ [] := by
  rw [natToDec]; split <;> simp

theorem allDigits_natToDec (n : Nat) : allDigits (natToDec n) = true := by
  simpa [allDigits] using natToDec_digits n

theorem decToNat_append (a : Bytes) (d : Nat) : decToNat (a ++ [d]) = decToNat a * 10 + (d - 48) := by
  simp [decToNat]

theorem decToNat_natToDec (n : Nat) : decToNat (natToDec n) = n := by
  induction n using Nat.strongRecOn with
  | _ n ih =>
    rw [natToDec]
    split
    · simp [decToNat]
    · rw [decToNat_append, ih (n / 10) (by omega)]; omega

/-- a digit is none of the delimiters the URI code looks for -/
theorem isDigit_range {c : Nat} (h : isDigit c = true) : 48 ≤ c ∧ c ≤ 57 := by
  simpa [isDigit] using h

end Aiocoap.Uri
