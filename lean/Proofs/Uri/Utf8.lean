import AiocoapModel.Uri.Percent
import Proofs.Uri.HostPort
/-! ASCII lower-casing does not change whether a byte string is UTF-8 (C16). -/
namespace Aiocoap.Uri

theorem lowerChar_ascii {c : Nat} (h : c < 128) : lowerChar c < 128 := by
  unfold lowerChar
  split
  · rename_i hu
    simp only [isUpper, Bool.and_eq_true, decide_eq_true_eq] at hu
    omega
  · exact h

theorem lowerChar_high {c : Nat} (h : 128 ≤ c) : lowerChar c = c := by
  unfold lowerChar
  split
  · rename_i hu
    simp only [isUpper, Bool.and_eq_true, decide_eq_true_eq] at hu
    omega
  · rfl

theorem range_lowerChar (lo hi c : Nat) (hlo : 128 ≤ lo) :
    (decide (lo ≤ lowerChar c) && decide (lowerChar c ≤ hi)) = (decide (lo ≤ c) && decide (c ≤ hi)) := by
  by_cases h : c < 128
  · have := lowerChar_ascii h
    have h1 : ¬ lo ≤ lowerChar c := by omega
    have h2 : ¬ lo ≤ c := by omega
    simp [h1, h2]
  · rw [lowerChar_high (by omega)]

theorem isCont_lowerChar (c : Nat) : isCont (lowerChar c) = isCont c := by
  unfold isCont
  exact range_lowerChar 128 191 c (by omega)

theorem utf8Valid_asciiLower_aux (n : Nat) :
    ∀ s : Bytes, s.length ≤ n → utf8Valid (s.map lowerChar) = utf8Valid s := by
  induction n with
  | zero =>
    intro s hs
    cases s with
    | nil => rfl
    | cons b r => simp at hs
  | succ n ih =>
    intro s hs
    cases s with
    | nil => rfl
    | cons b r =>
      simp only [List.length_cons] at hs
      simp only [List.map_cons]
      rw [utf8Valid.eq_def (lowerChar b :: List.map lowerChar r), utf8Valid.eq_def (b :: r)]
      simp only
      by_cases hb : b < 128
      · simp only [hb, lowerChar_ascii hb, ↓reduceIte]
        exact ih r (by omega)
      · have hbe := lowerChar_high (c := b) (by omega)
        simp only [hbe, hb, ↓reduceIte]
        by_cases h2 : 194 ≤ b ∧ b ≤ 223
        · simp only [h2, and_self, ↓reduceIte]
          cases r with
          | nil => rfl
          | cons c1 r' =>
            simp only [List.map_cons, isCont_lowerChar, ih r' (by simp at hs; omega)]
        · simp only [h2, ↓reduceIte]
          by_cases h3 : 224 ≤ b ∧ b ≤ 239
          · simp only [h3, and_self, ↓reduceIte]
            cases r with
            | nil => rfl
            | cons c1 r1 =>
              cases r1 with
              | nil => rfl
              | cons c2 r' =>
                simp only [List.map_cons, isCont_lowerChar, ih r' (by simp at hs; omega)]
                rw [range_lowerChar _ _ _ (by split <;> omega)]
          · simp only [h3, ↓reduceIte]
            by_cases h4 : 240 ≤ b ∧ b ≤ 244
            · simp only [h4, and_self, ↓reduceIte]
              cases r with
              | nil => rfl
              | cons c1 r1 =>
                cases r1 with
                | nil => rfl
                | cons c2 r2 =>
                  cases r2 with
                  | nil => rfl
                  | cons c3 r' =>
                    simp only [List.map_cons, isCont_lowerChar, ih r' (by simp at hs; omega)]
                    rw [range_lowerChar _ _ _ (by split <;> omega)]
            · simp only [h4, ↓reduceIte]

theorem utf8Valid_asciiLower (s : Bytes) : utf8Valid (asciiLower s) = utf8Valid s :=
  utf8Valid_asciiLower_aux s.length s (Nat.le_refl _)

end Aiocoap.Uri
