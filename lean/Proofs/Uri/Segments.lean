import Proofs.Uri.Split
/-! Path and query components: encoding then decoding gives the segment list back (C16). -/
namespace Aiocoap.Uri

/-- a character that is neither safe, nor `%`, nor an upper-case hex digit never comes out of
`quote` -/
theorem quote_excludes {S : Nat → Bool} {bad : Nat} (hS : S bad = false) (h37 : bad ≠ 37)
    (hhex : ¬ ((48 ≤ bad ∧ bad ≤ 57) ∨ (65 ≤ bad ∧ bad ≤ 70))) {s : Bytes} (hs : s.wf) :
    bad ∉ quote S s := by
  intro hm
  rcases quote_mem hs hm with h | h | h | h
  · rw [hS] at h; cases h
  · exact h37 h
  · exact hhex (Or.inl h)
  · exact hhex (Or.inr h)

theorem pathSafe_37 : pathSafe 37 = false := by decide
theorem querySafe_37 : querySafe 37 = false := by decide
theorem regNameSafe_37 : regNameSafe 37 = false := by decide

theorem quote_eq_nil {S : Nat → Bool} {s : Bytes} : quote S s = [] ↔ s = [] := by
  cases s with
  | nil => simp [quote]
  | cons b r =>
    simp only [quote, List.append_eq_nil_iff, reduceCtorEq, iff_false, not_and]
    intro h
    split at h <;> simp at h

theorem decodeSegs_quote {S : Nat → Bool} (hS : S 37 = false) {segs : List Bytes}
    (h : ∀ s ∈ segs, s.wf ∧ utf8Valid s = true) :
    decodeSegs (segs.map (quote S)) = some segs := by
  induction segs with
  | nil => rfl
  | cons s t ih =>
    have hs := h s (by simp)
    simp only [List.map_cons, decodeSegs, unquoteStrict, unquote_quote hS hs.1, hs.2, ↓reduceIte,
      ih (fun x hx => h x (by simp [hx]))]

-- path -----------------------------------------------------------------------------------

theorem splitOn_flatMap_path {S : Nat → Bool} (segs : List Bytes)
    (h : ∀ s ∈ segs, 47 ∉ quote S s) (a : Bytes) (ha : 47 ∉ a) :
    splitOn 47 (a ++ segs.flatMap (fun seg => 47 :: quote S seg)) = a :: segs.map (quote S) := by
  induction segs generalizing a with
  | nil => simpa using splitOn_of_not_mem ha
  | cons s t ih =>
    simp only [List.flatMap_cons, List.cons_append, List.map_cons]
    rw [splitOn_append_sep _ ha]
    rw [ih (fun x hx => h x (by simp [hx])) (quote S s) (h s (by simp))]

theorem encodePath_cons (s : Bytes) (t : List Bytes) :
    encodePath (s :: t) = 47 :: (quote pathSafe s ++ t.flatMap (fun seg => 47 :: quote pathSafe seg)) := by
  simp [encodePath]

theorem pathSafe_not_47 {s : Bytes} (hs : s.wf) : 47 ∉ quote pathSafe s :=
  quote_excludes (by decide) (by decide) (by omega) hs

/-- Uri-Path → path text → Uri-Path, except for the one degenerate list `[""]` -/
theorem decodePath_encodePath {segs : List Bytes} (hne : segs ≠ [[]])
    (h : ∀ s ∈ segs, s.wf ∧ utf8Valid s = true) : decodePath (encodePath segs) = some segs := by
  cases segs with
  | nil => simp [encodePath, decodePath]
  | cons s t =>
    have hnot : ¬ (encodePath (s :: t) = [] ∨ encodePath (s :: t) = [47]) := by
      rw [encodePath_cons]
      simp only [reduceCtorEq, List.cons.injEq, List.append_eq_nil_iff, true_and, false_or, not_and]
      intro hq
      rw [quote_eq_nil] at hq
      subst hq
      cases t with
      | nil => exact absurd rfl hne
      | cons s' t' => simp
    unfold decodePath
    rw [if_neg hnot]
    have hsp := splitOn_flatMap_path (S := pathSafe) (s :: t)
      (fun x hx => pathSafe_not_47 (h x hx).1) [] (by simp)
    simp only [List.nil_append] at hsp
    have : encodePath (s :: t) = (s :: t).flatMap (fun seg => 47 :: quote pathSafe seg) := by
      simp [encodePath]
    rw [this, hsp]
    simpa using decodeSegs_quote pathSafe_37 h

-- query ----------------------------------------------------------------------------------

theorem querySafe_not_38 {s : Bytes} (hs : s.wf) : 38 ∉ quote querySafe s :=
  quote_excludes (by decide) (by decide) (by omega) hs

theorem joinWith_eq_nil {c : Nat} {l : List Bytes} (h : joinWith c l = []) : l = [] ∨ l = [[]] := by
  cases l with
  | nil => exact Or.inl rfl
  | cons s t =>
    cases t with
    | nil => simp only [joinWith] at h; subst h; exact Or.inr rfl
    | cons s' t' => simp [joinWith] at h

/-- Uri-Query → query text → Uri-Query, except for the one degenerate list `[""]` -/
theorem decodeQuery_encodeQuery {segs : List Bytes} (hne : segs ≠ [[]])
    (h : ∀ s ∈ segs, s.wf ∧ utf8Valid s = true) : decodeQuery (encodeQuery segs) = some segs := by
  unfold decodeQuery encodeQuery
  by_cases hnil : segs = []
  · subst hnil; simp [joinWith]
  · have hq : joinWith 38 (segs.map (quote querySafe)) ≠ [] := by
      intro he
      rcases joinWith_eq_nil he with h0 | h0
      · exact hnil (by simpa using h0)
      · cases segs with
        | nil => exact hnil rfl
        | cons s t =>
          simp only [List.map_cons, List.cons.injEq, List.map_eq_nil_iff] at h0
          obtain ⟨h1, h2⟩ := h0
          rw [quote_eq_nil] at h1
          subst h1 h2
          exact hne rfl
    rw [if_neg hq]
    rw [splitOn_joinWith (by simpa using hnil)]
    · exact decodeSegs_quote querySafe_37 h
    · intro x hx
      simp only [List.mem_map] at hx
      obtain ⟨y, hy, rfl⟩ := hx
      exact querySafe_not_38 (h y hy).1

-- characters of the encoded components ---------------------------------------------------

theorem pathSafe_facts {c : Nat} (h : pathSafe c = true) :
    c ≠ 63 ∧ c ≠ 35 ∧ isUnsafeWs c = false := by
  simp only [pathSafe, isUnreserved, isSubDelim, isAlpha, isUpper, isLower, isDigit,
    Bool.or_eq_true, Bool.and_eq_true, decide_eq_true_eq, beq_iff_eq] at h
  simp only [isUnsafeWs, Bool.or_eq_false_iff, beq_eq_false_iff_ne, ne_eq]
  omega

theorem querySafe_facts {c : Nat} (h : querySafe c = true) : c ≠ 35 ∧ isUnsafeWs c = false := by
  simp only [querySafe, isUnreserved, isSubDelim, isAlpha, isUpper, isLower, isDigit,
    Bool.or_eq_true, Bool.and_eq_true, decide_eq_true_eq, beq_iff_eq, bne_iff_ne, ne_eq] at h
  simp only [isUnsafeWs, Bool.or_eq_false_iff, beq_eq_false_iff_ne, ne_eq]
  omega

theorem regNameSafe_facts {c : Nat} (h : regNameSafe c = true) :
    isNetlocDelim c = false ∧ isUnsafeWs c = false ∧ c ≠ 58 ∧ c ≠ 64 ∧ c ≠ 91 ∧ c ≠ 93 := by
  simp only [regNameSafe, isUnreserved, isSubDelim, isAlpha, isUpper, isLower, isDigit,
    Bool.or_eq_true, Bool.and_eq_true, decide_eq_true_eq, beq_iff_eq] at h
  simp only [isUnsafeWs, isNetlocDelim, Bool.or_eq_false_iff, beq_eq_false_iff_ne, ne_eq]
  omega

theorem encodePath_clean {segs : List Bytes} (h : ∀ s ∈ segs, s.wf) :
    (∃ r, encodePath segs = 47 :: r) ∧
      ∀ c ∈ encodePath segs, c ≠ 63 ∧ c ≠ 35 ∧ isUnsafeWs c = false := by
  constructor
  · cases segs with
    | nil => exact ⟨[], rfl⟩
    | cons s t => exact ⟨_, encodePath_cons s t⟩
  · intro c hc
    cases segs with
    | nil =>
      simp only [encodePath, List.mem_singleton] at hc
      subst hc; decide
    | cons s t =>
      simp only [encodePath, List.mem_flatMap, List.mem_cons] at hc
      obtain ⟨seg, hseg, hc⟩ := hc
      rcases hc with rfl | hc
      · decide
      · have hw : seg.wf := h seg (by simpa using hseg)
        rcases quote_mem hw hc with h1 | h1 | h1 | h1
        · exact pathSafe_facts h1
        · subst h1; decide
        · simp only [isUnsafeWs, Bool.or_eq_false_iff, beq_eq_false_iff_ne, ne_eq]; omega
        · simp only [isUnsafeWs, Bool.or_eq_false_iff, beq_eq_false_iff_ne, ne_eq]; omega

theorem mem_joinWith {c : Nat} {l : List Bytes} {x : Nat} (h : x ∈ joinWith c l) :
    x = c ∨ ∃ s ∈ l, x ∈ s := by
  induction l with
  | nil => simp [joinWith] at h
  | cons s t ih =>
    cases t with
    | nil => exact Or.inr ⟨s, by simp, by simpa [joinWith] using h⟩
    | cons s' t' =>
      simp only [joinWith, List.mem_append, List.mem_cons] at h
      rcases h with h | h | h
      · exact Or.inr ⟨s, by simp, h⟩
      · exact Or.inl h
      · rcases ih h with h' | ⟨y, hy, hxy⟩
        · exact Or.inl h'
        · exact Or.inr ⟨y, by simp [hy], hxy⟩

theorem encodeQuery_clean {segs : List Bytes} (h : ∀ s ∈ segs, s.wf) :
    ∀ c ∈ encodeQuery segs, c ≠ 35 ∧ isUnsafeWs c = false := by
  intro c hc
  rcases mem_joinWith hc with rfl | ⟨s, hs, hcs⟩
  · decide
  · simp only [List.mem_map] at hs
    obtain ⟨seg, hseg, rfl⟩ := hs
    rcases quote_mem (h seg hseg) hcs with h1 | h1 | h1 | h1
    · exact querySafe_facts h1
    · subst h1; decide
    · simp only [isUnsafeWs, Bool.or_eq_false_iff, beq_eq_false_iff_ne, ne_eq]; omega
    · simp only [isUnsafeWs, Bool.or_eq_false_iff, beq_eq_false_iff_ne, ne_eq]; omega

end Aiocoap.Uri
