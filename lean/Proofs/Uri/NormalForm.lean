import Proofs.Uri.Accepted
/-!
# URI → options → URI (C16)

The URI composed from the options of an accepted text is accepted again, decomposes to the
same options, and is a fixed point.
-/
namespace Aiocoap.Uri

/-- What the theorems assume about `str(ipaddress.IPv6Address(x))` (Python's `ipaddress` is not
modelled): the result is a fixed point, contains a colon, is lower-case up to the zone, starts
neither with `v` nor `[`; what precedes the zone identifier are hex digits, `:` and `.` (in the
result and in the text it was made from); the zone identifier is that of the input, copied; and only texts with a colon are addresses.  The harness
checks these on every address it sees.  (Nothing is assumed about what a zone identifier may
contain — `ipaddress` takes any text there.) -/
structure IpLaws (ip : IpOracle) : Prop where
  canon : ∀ x y, ip.norm6 x = some y →
    ip.norm6 y = some y ∧ 58 ∈ y ∧ lowerUntilPct y = y ∧ y.head? ≠ some 118 ∧ y.head? ≠ some 91
  addr : ∀ x y, ip.norm6 x = some y → ∀ c ∈ before 37 y, isHex c = true ∨ c = 58 ∨ c = 46
  addrIn : ∀ x y, ip.norm6 x = some y → ∀ c ∈ before 37 x, isHex c = true ∨ c = 58 ∨ c = 46
  zone : ∀ x y, ip.norm6 x = some y → after 37 y = after 37 x
  colon : ∀ x y, ip.norm6 x = some y → 58 ∈ x

/-- the Uri-Host value does not spell an IP address (if it does, the host moves from Uri-Host to
the remote on the way back: the same destination, but not the same options) -/
def NotIpText (ip : IpOracle) (h : Bytes) : Prop :=
  ip4Looking h = false ∧ passesAsAddress ip h = false

/-- the conclusion: `u'` is the normal form of the accepted text whose options are `o` -/
structure NormalForm (ip : IpOracle) (o : Opts) (u' : Bytes) (o' : Opts) : Prop where
  composed : getRequestUri ip o = some u'
  accepted : setRequestUri ip u' = .ok o'
  scheme : o'.scheme = o.scheme
  uriHost : o'.uriHost = o.uriHost
  uriPort : o'.uriPort = o.uriPort
  path : o'.path = o.path
  query : o'.query = o.query
  port : portOf o'.hostinfo = portOf o.hostinfo
  literal : o.uriHost = none → o' = o
  fixed : getRequestUri ip o' = some u'
  /-- the normal form consists of the characters RFC 3986 allows in a URI -/
  uriText : ∀ c ∈ u', isUriChar c = true

-- the literal case -----------------------------------------------------------------------

theorem normalForm_literal {ip : IpOracle} {o : Opts} (hs : o.scheme ∈ coapSchemes)
    (huh : o.uriHost = none) (hup : o.uriPort = none) (hn : NetlocFacts ip o.hostinfo none)
    (hp : SegsOk o.path) (hq : SegsOk o.query) :
    ∃ u', NormalForm ip o u' o := by
  have hne := netlocFacts_ne_nil hn
  have hcn : composeNetloc ip o = some o.hostinfo := by simp [composeNetloc, huh, hup]
  have hget : getRequestUri ip o
      = some (render o.scheme o.hostinfo (encodePath o.path) (encodeQuery o.query)) := by
    unfold getRequestUri; rw [hcn]; simp [hne]
  have hset := setRequestUri_render hs hn hp hq
  have ho : ({ scheme := o.scheme, hostinfo := o.hostinfo, uriHost := none, uriPort := none,
               path := o.path, query := o.query } : Opts) = o := by
    cases o; simp_all
  rw [ho] at hset
  exact ⟨_, hget, hset, rfl, rfl, rfl, rfl, rfl, rfl, fun _ => rfl, hget,
    render_uriChars hs hn.uriChars hp hq⟩

-- no user info in front of a leading bracket ---------------------------------------------

theorem no_at_of_bracket_head {r : Bytes} (h : hasUserinfo (91 :: r) = false) : 64 ∉ 91 :: r := by
  intro hm
  have h64 : 64 ∈ r := by simpa using hm
  unfold hasUserinfo at h
  rw [contains_true_of_mem hm] at h
  cases h

theorem after_head (c : Nat) (r : Bytes) : after c (c :: r) = r := by
  simp [after, dropUntil]

theorem mem_lowerUntilPct_of_mem {s : Bytes} {c : Nat} (h : c ∈ s) (hu : isUpper c = false) :
    c ∈ lowerUntilPct s := by
  induction s with
  | nil => cases h
  | cons x r ih =>
    simp only [lowerUntilPct]
    split
    · exact h
    · simp only [List.mem_cons] at h ⊢
      rcases h with rfl | h
      · left; exact (lowerChar_of_not_upper hu).symm
      · right; exact ih h

theorem ip4Strict_chars {x : Bytes} (h : ip4Strict x = true) :
    ∀ c ∈ x, isDigit c = true ∨ c = 46 := by
  intro c hc
  by_cases h46 : c = 46
  · exact Or.inr h46
  · left
    unfold ip4Strict at h
    simp only [Bool.and_eq_true, List.all_eq_true] at h
    obtain ⟨part, hpart, hcp⟩ := mem_splitOn_cover (c := 46) hc h46
    have := (h.2 part hpart).1.1.1.2
    simp only [allDigits, List.all_eq_true] at this
    exact this c hcp

/-- what the bracket test of `set_request_uri` leaves of an authority with a `[` in it: the `[`
leads and is the only one up to the `]`, the literal's zone identifier is unreserved -/
theorem literalOk_inv {n : Bytes} (h : literalOk n = true) (h91 : 91 ∈ n) :
    ∃ r, n = 91 :: r ∧ 91 ∉ before 93 r ∧ zoneOk (before 93 r) = true ∧
      (after 93 r = [] ∨ (after 93 r).head? = some 58) := by
  unfold literalOk at h
  rw [contains_true_of_mem h91] at h
  simp only [Bool.true_or, ↓reduceIte, Bool.and_eq_true, Bool.not_eq_true', beq_iff_eq,
    Bool.or_eq_true, List.head?_eq_none_iff] at h
  obtain ⟨⟨⟨hhead, hno⟩, hport⟩, hz⟩ := h
  cases n with
  | nil => cases h91
  | cons x r =>
    by_cases hx : x = 93
    · subst hx
      simp [before, takeUntil] at hhead
    · have hb : before 93 (x :: r) = x :: before 93 r := by
        simp [before, takeUntil, hx]
      rw [hb] at hhead hno hz
      simp only [List.head?_cons, Option.some.injEq] at hhead
      subst hhead
      have ha : after 93 (91 :: r) = after 93 r := by simp [after, dropUntil]
      rw [ha] at hport
      refine ⟨r, rfl, ?_, ?_, hport⟩
      · simpa using hno
      · simpa [zoneOk, after, dropUntil] using hz

theorem rawHostname_bracket_head {r : Bytes} (h64 : 64 ∉ 91 :: r) :
    rawHostname (91 :: r) = before 93 r := by
  unfold rawHostname
  simp only [show hostinfoOf (91 :: r) = 91 :: r from afterLast_of_not_mem h64]
  have : (91 :: r).contains 91 = true := by simp
  rw [this]
  simp only [↓reduceIte]
  rw [after_head]

theorem after_lowerUntilPct (s : Bytes) : after 37 (lowerUntilPct s) = after 37 s := by
  induction s with
  | nil => rfl
  | cons x r ih =>
    simp only [lowerUntilPct]
    split
    · rfl
    · rename_i hx
      have hl : lowerChar x ≠ 37 := by
        unfold lowerChar
        split
        · rename_i hu
          simp only [isUpper, Bool.and_eq_true, decide_eq_true_eq] at hu
          omega
        · exact hx
      have e1 : after 37 (lowerChar x :: lowerUntilPct r) = after 37 (lowerUntilPct r) := by
        simp [after, dropUntil, hl]
      have e2 : after 37 (x :: r) = after 37 r := by
        simp [after, dropUntil, hx]
      rw [e1, e2, ih]

theorem lowerUntilPct_digits {s : Bytes} (h : ∀ d ∈ lowerUntilPct s, isDigit d = true ∨ d = 46) :
    ∀ c ∈ s, isDigit c = true ∨ c = 46 := by
  induction s with
  | nil => intro c hc; cases hc
  | cons x r ih =>
    simp only [lowerUntilPct] at h
    split at h
    · rename_i hx
      subst hx
      have := h 37 (by simp)
      simp [isDigit] at this
    · have hx := h (lowerChar x) (by simp)
      have hr := ih (fun d hd => h d (by simp [hd]))
      intro c hc
      simp only [List.mem_cons] at hc
      rcases hc with rfl | hc
      · unfold lowerChar at hx
        split at hx
        · rename_i hu
          simp only [isUpper, Bool.and_eq_true, decide_eq_true_eq] at hu
          simp only [isDigit, Bool.and_eq_true, decide_eq_true_eq] at hx
          omega
        · exact hx
      · exact hr c hc

/-- an authority without bracket and user info whose host is a dotted quad and whose port, if
any, is a number consists of digits, dots and a colon -/
theorem plain_netloc_uriChars {n hn : Bytes} {port : Option Nat} (h91 : 91 ∉ n)
    (hui : hasUserinfo n = false) (hhn : hostnameOf n = some hn) (h4 : ip4Looking hn = true)
    (hport : portOf n = some port) : ∀ c ∈ n, isUriChar c = true := by
  have h64 : 64 ∉ n := by
    intro hm
    unfold hasUserinfo at hui
    rw [contains_true_of_mem hm] at hui
    cases hui
  have hhi : hostinfoOf n = n := afterLast_of_not_mem h64
  have hraw : rawHostname n = before 58 n := by
    unfold rawHostname
    simp only [hhi, contains_false_of_not_mem h91, Bool.false_eq_true, ↓reduceIte]
  have hrp : rawPort n = after 58 n := by
    unfold rawPort
    simp only [hhi, contains_false_of_not_mem h91, Bool.false_eq_true, ↓reduceIte]
  obtain ⟨_, hhneq⟩ := hostnameOf_inv hhn
  have hhost : ∀ c ∈ before 58 n, isDigit c = true ∨ c = 46 := by
    apply lowerUntilPct_digits
    intro d hd
    rw [← hraw, ← hhneq] at hd
    exact ip4Looking_chars h4 d hd
  have hpd : ∀ c ∈ after 58 n, isDigit c = true := by
    intro c hc
    unfold portOf at hport
    simp only [hrp] at hport
    split at hport
    · rename_i he; rw [he] at hc; cases hc
    · split at hport
      · rename_i hd
        simp only [Bool.and_eq_true, allDigits, List.all_eq_true] at hd
        exact hd.1 c hc
      · cases hport
  intro c hc
  have hcase : c ∈ before 58 n ∨ c = 58 ∨ c ∈ after 58 n := by
    by_cases h58 : 58 ∈ n
    · have e := before_after_eq h58
      rw [e] at hc
      simpa using hc
    · left; rw [before_of_not_mem h58]; exact hc
  rcases hcase with h | rfl | h
  · rcases hhost c h with h' | rfl
    · exact uriChar_of_digit h'
    · decide
  · decide
  · exact uriChar_of_digit (hpd c h)

/-- shape of an accepted authority that contains a bracket -/
theorem literal_shape {ip : IpOracle} {p : Parsed} {o : Opts} (hb : bracketsOk ip p.netloc = true)
    (A : AcceptedFacts ip p o) (hbr : 91 ∈ p.netloc ∨ 93 ∈ p.netloc) :
    ∃ t rest, p.netloc = [91] ++ t ++ [93] ++ rest ∧ 91 ∉ t ∧ 93 ∉ t ∧
      (rest = [] ∨ rest.head? = some 58) ∧ zoneOk t = true ∧
      o.uriHost = none ∧ hostnameOf p.netloc = some (lowerUntilPct t) := by
  -- the URI splitter wants both brackets or none
  have hboth : 91 ∈ p.netloc ∧ 93 ∈ p.netloc := by
    unfold bracketsOk at hb
    by_cases h1 : 91 ∈ p.netloc <;> by_cases h3 : 93 ∈ p.netloc
    · exact ⟨h1, h3⟩
    · simp at hb; exact absurd (hb.1.mp h1) h3
    · simp at hb; exact absurd (hb.1.mpr h3) h1
    · rcases hbr with h | h
      · exact absurd h h1
      · exact absurd h h3
  obtain ⟨r, hnr, h91r, hz, hrest⟩ := literalOk_inv A.literal hboth.1
  have h93r : 93 ∈ r := by
    have := hboth.2
    rw [hnr] at this
    simpa using this
  have hsplit := before_after_eq h93r
  have hui := A.userinfo
  rw [hnr] at hui
  have h64 : 64 ∉ 91 :: r := no_at_of_bracket_head hui
  obtain ⟨hn, hhn, hcase⟩ := A.host
  obtain ⟨_, hhneq⟩ := hostnameOf_inv hhn
  refine ⟨before 93 r, after 93 r, ?_, h91r, not_mem_before 93 r, hrest, hz, ?_, ?_⟩
  · rw [hnr]
    simp only [List.cons_append, List.nil_append, List.append_assoc, List.cons.injEq, true_and]
    exact hsplit
  · have hhead : (p.netloc.head? == some 91) = true := by rw [hnr]; simp
    rcases hcase with ⟨_, h⟩ | ⟨h, _⟩
    · exact h
    · rw [hhead] at h; simp at h
  · rw [hhn, hhneq, hnr, rawHostname_bracket_head h64]

-- the main assembly ------------------------------------------------------------------------

theorem normalForm_of_accepted {ip : IpOracle} (laws : IpLaws ip) {u : Bytes} (hu : u.wf)
    {o : Opts} (hok : setRequestUri ip u = .ok o)
    (hname : ∀ h, o.uriHost = some h → NotIpText ip h) :
    ∃ u' o', NormalForm ip o u' o' := by
  obtain ⟨p, hsplit, A⟩ := setRequestUri_ok_inv hok
  have S := urlsplit_facts hsplit
  obtain ⟨hn, hhn, hcase⟩ := A.host
  obtain ⟨port, hport⟩ := A.port
  obtain ⟨hrawne, hhneq⟩ := hostnameOf_inv hhn
  have hnne : p.netloc ≠ [] := by
    intro e
    rw [e] at hrawne
    simp [rawHostname, hostinfoOf, afterLast, before, takeUntil] at hrawne
  have hsch : o.scheme ∈ coapSchemes := by rw [A.oscheme]; exact A.scheme
  have hp : SegsOk o.path :=
    segsOk_path (fun c hc => hu c (S.path_mem c hc)) (S.path hnne) A.path
  have hq : SegsOk o.query := segsOk_query (fun c hc => hu c (S.query_mem c hc)) A.query
  have hport65 : ∀ q, port = some q → q ≤ 65535 := by
    intro q hq'; subst hq'; exact portOf_le hport
  have hnwf : p.netloc.wf := fun c hc => hu c (S.netloc c hc).1
  have hhnwf : hn.wf := by
    rw [hhneq]
    exact lowerUntilPct_wf (fun c hc => hnwf c (mem_rawHostname hc))
  by_cases h91 : 91 ∈ p.netloc
  · -- bracketed literal: since the bracket test of `set_request_uri` it is the whole host
    obtain ⟨r, hnr, h91r, hzraw, _⟩ := literalOk_inv A.literal h91
    have hhead : (p.netloc.head? == some 91) = true := by rw [hnr]; simp
    have huh : o.uriHost = none := by
      rcases hcase with ⟨_, h⟩ | ⟨h, _⟩
      · exact h
      · rw [hhead] at h; simp at h
    have hui := A.userinfo
    rw [hnr] at hui
    have h64 : 64 ∉ p.netloc := by rw [hnr]; exact no_at_of_bracket_head hui
    have hraw : rawHostname p.netloc = before 93 r := by
      rw [hnr] at h64 ⊢
      exact rawHostname_bracket_head h64
    -- what the remote was built from
    have hund := A.hostinfo
    unfold undecidedHostinfo at hund
    rw [contains_true_of_mem (by rw [hnr]; simp : 91 ∈ p.netloc)] at hund
    simp only [↓reduceIte, hostportsplit, hport, hhn] at hund
    cases hnorm : ipNormAny ip hn with
    | none => rw [hnorm] at hund; cases hund
    | some y =>
      rw [hnorm] at hund
      simp only [Option.some.injEq] at hund
      -- the host is not a dotted quad: the bracket check let a colon-bearing text through
      have hbrk := S.brackets
      unfold bracketsOk at hbrk
      rw [contains_true_of_mem (by rw [hnr]; simp : 91 ∈ p.netloc)] at hbrk
      have hrawb : before 93 (after 91 p.netloc) = rawHostname p.netloc := by
        rw [hraw, hnr, after_head]
      rw [hrawb] at hbrk
      have hnot4 : ip4Strict hn = false := by
        by_cases h4 : ip4Strict hn = true
        · exfalso
          have hdig := ip4Strict_chars h4
          have h58raw : 58 ∈ rawHostname p.netloc := by
            split at hbrk
            · cases hbrk
            · simp only [↓reduceIte] at hbrk
              unfold bracketedOk at hbrk
              split at hbrk
              · -- starts with 'v': then so does hn, which is not a digit
                rename_i t heq
                have : 118 ∈ hn := by
                  rw [hhneq]
                  exact mem_lowerUntilPct_of_mem (by rw [heq]; simp) (by decide)
                rcases hdig 118 this with h | h
                · simp [isDigit] at h
                · cases h
              · cases hno : ip.norm6 (rawHostname p.netloc) with
                | none => rw [hno] at hbrk; cases hbrk
                | some y' => exact laws.colon _ _ hno
          have : 58 ∈ hn := by
            rw [hhneq]; exact mem_lowerUntilPct_of_mem h58raw (by decide)
          rcases hdig 58 this with h | h
          · simp [isDigit] at h
          · cases h
        · simpa using h4
      unfold ipNormAny at hnorm
      rw [hnot4] at hnorm
      simp only [Bool.false_eq_true, ↓reduceIte] at hnorm
      obtain ⟨hfix, hcol, hlow, hnv, hnb⟩ := laws.canon hn y hnorm
      -- the zone identifier of the remote is the one the bracket test has seen
      have hzy : zoneOk y = true := by
        unfold zoneOk
        rw [laws.zone hn y hnorm, hhneq, after_lowerUntilPct, hraw]
        exact hzraw
      have hy : Ip6Text ip y := ⟨hfix, hcol, laws.addr hn y hnorm, hzy, hlow, hnv⟩
      have hyclean := hy.clean
      have h91y : 91 ∉ y := fun hm => (hyclean 91 hm).1 rfl
      have hhi' : o.hostinfo = plainJoin ([91] ++ y ++ [93]) port := by
        rw [← hund, hostportjoin_bracket port hcol h91y]
      have hfacts : NetlocFacts ip o.hostinfo none := by
        rw [hhi']; exact netlocFacts_ip6 hy port hport65
      obtain ⟨u', hnf⟩ := normalForm_literal hsch huh A.uriPort hfacts hp hq
      exact ⟨u', o, hnf⟩
  · -- no bracket anywhere in the authority
    have hhead : (p.netloc.head? == some 91) = false := head?_beq_false h91
    have hhi : o.hostinfo = p.netloc := by
      have := A.hostinfo
      rw [undecided_plain ip h91] at this
      injection this with this
      exact this.symm
    rcases hcase with ⟨hlit, huh⟩ | ⟨hlit, h, hdec, huh⟩
    · -- dotted quad: the authority text is kept verbatim
      have hfacts : NetlocFacts ip o.hostinfo none := by
        rw [hhi]
        exact
          { clean := fun c hc => (S.netloc c hc).2
            uriChars := plain_netloc_uriChars h91 A.userinfo hhn (by simpa [hhead] using hlit) hport
            brackets := S.brackets
            hostname := ⟨hn, hhn, Or.inl ⟨hlit, rfl⟩⟩
            userinfo := A.userinfo
            literal := A.literal
            port := ⟨port, hport⟩
            undecided := undecided_plain ip h91 }
      obtain ⟨u', hnf⟩ := normalForm_literal hsch huh A.uriPort hfacts hp hq
      exact ⟨u', o, hnf⟩
    · -- registered name
      have hdec' : unquote hn = h ∧ utf8Valid h = true := by
        unfold unquoteStrict at hdec
        split at hdec
        · rename_i hv
          injection hdec with hdec
          rw [← hdec]; exact ⟨rfl, hv⟩
        · cases hdec
      have hhne : h ≠ [] := by
        intro e
        rw [e] at hdec'
        have := unquote_eq_nil hdec'.1
        rw [hhneq] at this
        exact lowerUntilPct_ne_nil hrawne this
      have hhwf : h.wf := by rw [← hdec'.1]; exact unquote_wf hhnwf
      obtain ⟨hn4, hn6⟩ := hname (asciiLower h) huh
      have hk : NameOk ip (asciiLower h) :=
        { ne := by simpa [asciiLower] using hhne
          wf := asciiLower_wf hhwf
          utf8 := by rw [utf8Valid_asciiLower]; exact hdec'.2
          lower := asciiLower_no_upper h
          notIp4 := hn4
          notIp6 := hn6 }
      let r : Resource :=
        { scheme := o.scheme, host := .name (asciiLower h), port := port, path := o.path,
          query := o.query }
      have hr : r.WF ip := ⟨hsch, hk, hport65, hp, hq⟩
      have hcn : composeNetloc ip o = some (r.netloc ip) := by
        unfold composeNetloc
        rw [huh, A.uriPort, hhi]
        simp only [Option.isSome_some, Bool.true_or, ↓reduceIte, hostportsplit, hport, hhn, pyOr,
          ne_eq, hk.ne, not_false_eq_true]
        rfl
      have hne := netlocFacts_ne_nil (toOpts_facts hr)
      have hget : getRequestUri ip o
          = some (render o.scheme (r.netloc ip) (encodePath o.path) (encodeQuery o.query)) := by
        unfold getRequestUri; rw [hcn]; simp [hne]
      have hget' := getRequestUri_toOpts hr
      have hset : setRequestUri ip
          (render o.scheme (r.netloc ip) (encodePath o.path) (encodeQuery o.query))
            = .ok (r.toOpts ip) := by
        have := setRequestUri_render (ip := ip) hsch (toOpts_facts hr) hp hq
        rw [toOpts_eq ip r]; exact this
      refine ⟨_, r.toOpts ip, hget, hset, ?_, ?_, ?_, ?_, ?_, ?_, ?_, hget',
        render_uriChars hsch (toOpts_facts hr).uriChars hp hq⟩
      · rfl
      · rw [huh]; rfl
      · rw [A.uriPort]; rfl
      · rfl
      · rfl
      · show portOf (r.netloc ip) = portOf o.hostinfo
        rw [portOf_netloc hr, hhi, hport]
      · intro hnone; rw [huh] at hnone; cases hnone

end Aiocoap.Uri
