import AiocoapModel.Uri.Percent
import Proofs.Uri.Text
/-! Lemmas about percent-encoding (C16). -/
namespace Aiocoap.Uri

theorem hexU_range {n : Nat} (h : n < 16) :
    (48 ≤ hexU n ∧ hexU n ≤ 57) ∨ (65 ≤ hexU n ∧ hexU n ≤ 70) := by
  unfold hexU; split <;> omega

theorem hexValN_hexU {n : Nat} (h : n < 16) : hexValN (hexU n) = some n := by
  unfold hexU hexValN
  split
  · rw [if_pos (by omega)]; congr 1; omega
  · rw [if_neg (by omega), if_pos (by omega)]; congr 1; omega

theorem hexValN_lt {c v : Nat} (h : hexValN c = some v) : v < 16 := by
  unfold hexValN at h
  split at h
  · cases h; omega
  · split at h
    · cases h; omega
    · split at h
      · cases h; omega
      · cases h

/-- every character `quote` emits is a safe one, `%`, or an upper-case hex digit -/
theorem quote_mem {S : Nat → Bool} {s : Bytes} (hs : s.wf) {c : Nat} (h : c ∈ quote S s) :
    S c = true ∨ c = 37 ∨ (48 ≤ c ∧ c ≤ 57) ∨ (65 ≤ c ∧ c ≤ 70) := by
  induction s with
  | nil => simp [quote] at h
  | cons b r ih =>
    have hb : b < 256 := hs b (by simp)
    have hr : Bytes.wf r := fun x hx => hs x (by simp [hx])
    simp only [quote, List.mem_append] at h
    rcases h with h | h
    · by_cases hsafe : S b = true
      · simp only [hsafe, ↓reduceIte, List.mem_singleton] at h
        subst h; exact Or.inl hsafe
      · simp only [hsafe, Bool.false_eq_true, ↓reduceIte, List.mem_cons, List.not_mem_nil,
          or_false] at h
        rcases h with rfl | rfl | rfl
        · exact Or.inr (Or.inl rfl)
        · exact Or.inr (Or.inr (hexU_range (by omega)))
        · exact Or.inr (Or.inr (hexU_range (by omega)))
    · exact ih hr h

theorem quote_wf {S : Nat → Bool} {s : Bytes} (hs : s.wf) : (quote S s).wf := by
  induction s with
  | nil => simp [quote, Bytes.wf]
  | cons b r ih =>
    have hb : b < 256 := hs b (by simp)
    have hr : Bytes.wf r := fun x hx => hs x (by simp [hx])
    simp only [quote]
    rw [Bytes.wf_append]
    refine ⟨?_, ih hr⟩
    by_cases hsafe : S b = true
    · simp only [hsafe, ↓reduceIte]
      intro x hx; simp only [List.mem_singleton] at hx; omega
    · simp only [hsafe, Bool.false_eq_true, ↓reduceIte]
      intro x hx
      simp only [List.mem_cons, List.not_mem_nil, or_false] at hx
      have h1 := hexU_range (n := b / 16) (by omega)
      have h2 := hexU_range (n := b % 16) (by omega)
      rcases hx with rfl | rfl | rfl <;> omega

theorem unquote_nil : unquote [] = [] := by rw [unquote.eq_def]

theorem unquote_cons_ne {c : Nat} (r : Bytes) (h : c ≠ 37) : unquote (c :: r) = c :: unquote r := by
  rw [unquote.eq_def]; simp [h]

theorem unquote_escape {a b x y : Nat} (r : Bytes) (ha : hexValN a = some x)
    (hb : hexValN b = some y) : unquote (37 :: a :: b :: r) = (x * 16 + y) :: unquote r := by
  rw [unquote]; simp [ha, hb]

/-- decoding undoes encoding, whatever the safe set, as long as `%` itself is not safe -/
theorem unquote_quote {S : Nat → Bool} (hS : S 37 = false) {s : Bytes} (hs : s.wf) :
    unquote (quote S s) = s := by
  induction s with
  | nil => simp [quote, unquote_nil]
  | cons b r ih =>
    have hb : b < 256 := hs b (by simp)
    have hr : Bytes.wf r := fun x hx => hs x (by simp [hx])
    simp only [quote]
    by_cases hsafe : S b = true
    · have hne : b ≠ 37 := by rintro rfl; rw [hS] at hsafe; cases hsafe
      simp only [hsafe, ↓reduceIte, List.singleton_append]
      rw [unquote_cons_ne _ hne, ih hr]
    · simp only [hsafe, Bool.false_eq_true, ↓reduceIte, List.cons_append, List.nil_append]
      rw [unquote_escape _ (hexValN_hexU (n := b / 16) (by omega))
        (hexValN_hexU (n := b % 16) (by omega)), ih hr]
      congr 1; omega

theorem unquote_wf {s : Bytes} (hs : s.wf) : (unquote s).wf := by
  induction s using unquote.induct with
  | case1 => simp [unquote_nil, Bytes.wf]
  | case2 a b r' x y hb ha ih =>
    rw [unquote_escape _ ha hb]
    have hr : Bytes.wf r' := fun z hz => hs z (by simp [hz])
    rw [Bytes.wf_cons]
    exact ⟨by have := hexValN_lt ha; have := hexValN_lt hb; omega, ih hr⟩
  | case3 a b r' hno ih =>
    rw [unquote]
    simp only [↓reduceIte]
    rw [Bytes.wf_cons]
    exact ⟨by omega, ih (fun z hz => hs z (by simp [hz]))⟩
  | case4 a =>
    rw [unquote]; simp only [↓reduceIte]
    exact fun z hz => hs z hz
  | case5 =>
    rw [unquote]; simp only [↓reduceIte]
    exact fun z hz => hs z hz
  | case6 c r hc ih =>
    rw [unquote_cons_ne _ hc, Bytes.wf_cons]
    exact ⟨hs c (by simp), ih (fun z hz => hs z (by simp [hz]))⟩

end Aiocoap.Uri
