import Proofs.Uri.NormalForm
/-!
# URI → options → URI when the Uri-Host value spells an IP literal (C16)

`coap://%31.2.3.4/` and `coap://%3A%3A01/` are registered names (RFC 3986) whose decoded value —
the Uri-Host option of RFC 7252 §6.4 step 5 — looks like an IP literal.  §6.5 step 4 composes the
option value as it stands, so the composed URI has an IP literal for a host and decomposes
*without* Uri-Host: the destination is the same, the options are not.  This file proves what
does hold on that class: the composed URI is accepted, names the address the option spelled
(normalised), keeps scheme, port, path and query, and is settled after that one step.
-/
namespace Aiocoap.Uri

/-- what holds instead of `NormalForm` when the Uri-Host value `h` spells an IP literal -/
structure MovedToRemote (ip : IpOracle) (o : Opts) (h : Bytes) (u' : Bytes) (o' : Opts) : Prop where
  composed : getRequestUri ip o = some u'
  accepted : setRequestUri ip u' = .ok o'
  scheme : o'.scheme = o.scheme
  uriHost : o'.uriHost = none
  uriPort : o'.uriPort = o.uriPort
  path : o'.path = o.path
  query : o'.query = o.query
  port : portOf o'.hostinfo = portOf o.hostinfo
  /-- the remote is the address the option spelled: the dotted quad itself, or the normalised
  IPv6 text -/
  destination : hostnameOf o'.hostinfo = if ip4Looking h then some h else ip.norm6 (unbracket h)
  /-- from here on nothing moves any more -/
  settles : ∃ u'', NormalForm ip o' u'' o'
  /-- `u'` consists of the characters RFC 3986 allows in a URI -/
  uriText : ∀ c ∈ u', isUriChar c = true

-- small facts ------------------------------------------------------------------------------

theorem quote_id_of_safe {S : Nat → Bool} {s : Bytes} (h : ∀ c ∈ s, S c = true) : quote S s = s := by
  induction s with
  | nil => rfl
  | cons b r ih =>
    simp only [quote, h b (by simp), ↓reduceIte, List.singleton_append]
    rw [ih (fun c hc => h c (by simp [hc]))]

theorem regNameSafe_of_digit_dot {c : Nat} (h : isDigit c = true ∨ c = 46) : regNameSafe c = true := by
  rcases h with h | h
  · simp [regNameSafe, isUnreserved, h]
  · subst h; decide

theorem escHost_ip4 {ip : IpOracle} {h : Bytes} (h4 : ip4Looking h = true) : escHost ip h = h := by
  have hc := ip4Looking_chars h4
  have hex : ∀ c, (isDigit c = false) → c ≠ 46 → c ∉ h := by
    intro c h1 h2 hm
    rcases hc c hm with h' | h'
    · rw [h1] at h'; cases h'
    · exact h2 h'
  have h58 : 58 ∉ h := hex 58 (by decide) (by decide)
  have h91 : 91 ∉ h := hex 91 (by decide) (by decide)
  unfold escHost passesAsAddress
  rw [contains_false_of_not_mem h58, contains_false_of_not_mem h91]
  simp only [Bool.or_self, Bool.false_and, Bool.false_eq_true, ↓reduceIte]
  exact quote_id_of_safe (fun c hm => regNameSafe_of_digit_dot (hc c hm))

theorem hostnameOf_ip4 {t : Bytes} (ht : ip4Looking t = true) (port : Option Nat) :
    hostnameOf (plainJoin t port) = some t := by
  have hc := ip4Looking_chars ht
  have hex : ∀ c, (isDigit c = false) → c ≠ 46 → c ∉ t := by
    intro c h1 h2 hm
    rcases hc c hm with h | h
    · rw [h1] at h; cases h
    · exact h2 h
  have hlow : lowerUntilPct t = t := by
    apply lowerUntilPct_id
    intro c hm
    rcases hc c hm with h | h
    · have := isDigit_range h; simp [isUpper]; omega
    · subst h; decide
  unfold hostnameOf
  simp only [rawHostname_plain port (hex 58 (by decide) (by decide)) (hex 64 (by decide) (by decide))
    (hex 91 (by decide) (by decide)), ip4Looking_ne_nil ht, ↓reduceIte, hlow]

/-- a list that starts with `a` and ends with `b ≠ a` is `a`, a middle part, `b` -/
theorem bracketed_shape {l : Bytes} {a b : Nat} (hab : a ≠ b) (hh : l.head? = some a)
    (hl : l.getLast? = some b) : l = [a] ++ (l.drop 1).dropLast ++ [b] := by
  cases l with
  | nil => cases hh
  | cons x t =>
    simp only [List.head?_cons, Option.some.injEq] at hh
    subst hh
    cases t with
    | nil =>
      simp only [List.getLast?_singleton, Option.some.injEq] at hl
      exact absurd hl hab
    | cons y t' =>
      have hl' : (y :: t').getLast? = some b := by
        rw [List.getLast?_cons_cons] at hl; exact hl
      have hne : (y :: t') ≠ [] := by simp
      have hgl : (y :: t').getLast hne = b := by
        rw [List.getLast?_eq_some_getLast hne] at hl'
        injection hl'
      have := List.dropLast_concat_getLast hne
      rw [hgl] at this
      simp only [List.drop_succ_cons, List.drop_zero, List.cons_append, List.nil_append,
        List.cons.injEq, true_and]
      exact this.symm

-- an IPv6 text in brackets that need not be written canonically ------------------------------

/-- `x` is an IPv6 text as `_quote_host` lets it pass: `ipaddress` takes it (and prints `y` for
it), its zone identifier is unreserved, and it has no upper-case letter (it stems from a
Uri-Host value of §6.4) -/
structure Ip6In (ip : IpOracle) (x y : Bytes) : Prop where
  norm : ip.norm6 x = some y
  zone : zoneOk x = true
  lower : ∀ c ∈ x, isUpper c = false

theorem Ip6In.clean {ip : IpOracle} (laws : IpLaws ip) {x y : Bytes} (h : Ip6In ip x y) :
    ∀ c ∈ x, c ≠ 91 ∧ c ≠ 93 ∧ c ≠ 64 ∧ isNetlocDelim c = false ∧ isUnsafeWs c = false := by
  intro c hc
  simp only [isNetlocDelim, isUnsafeWs, Bool.or_eq_false_iff, beq_eq_false_iff_ne, ne_eq]
  rcases mem_cases_pct hc with h1 | h1 | h1
  · have := addrChar_facts (laws.addrIn x y h.norm c h1)
    omega
  · omega
  · have := unreserved_facts (zoneOk_iff.mp h.zone c h1)
    omega

theorem Ip6In.uriChars {ip : IpOracle} (laws : IpLaws ip) {x y : Bytes} (h : Ip6In ip x y) :
    ∀ c ∈ x, isUriChar c = true := by
  intro c hc
  rcases mem_cases_pct hc with h1 | h1 | h1
  · exact uriChar_of_addrChar (laws.addrIn x y h.norm c h1)
  · subst h1; decide
  · exact uriChar_of_unreserved (zoneOk_iff.mp h.zone c h1)

theorem Ip6In.out {ip : IpOracle} (laws : IpLaws ip) {x y : Bytes} (h : Ip6In ip x y) :
    Ip6Text ip y := by
  obtain ⟨hfix, hcol, hlow, hnv, _⟩ := laws.canon x y h.norm
  refine ⟨hfix, hcol, laws.addr x y h.norm, ?_, hlow, hnv⟩
  unfold zoneOk
  rw [laws.zone x y h.norm]
  exact h.zone

theorem Ip6In.notV {ip : IpOracle} (laws : IpLaws ip) {x y : Bytes} (h : Ip6In ip x y) :
    x.head? ≠ some 118 := by
  cases x with
  | nil => simp
  | cons c r =>
    simp only [List.head?_cons, ne_eq, Option.some.injEq]
    rintro rfl
    have : 118 ∈ before 37 (118 :: r) := by simp [before, takeUntil]
    have := laws.addrIn _ y h.norm 118 this
    simp [isHex, isDigit] at this

theorem netlocFactsTo_ip6 {ip : IpOracle} (laws : IpLaws ip) {x y : Bytes} (h : Ip6In ip x y)
    (port : Option Nat) (hp : ∀ p, port = some p → p ≤ 65535) :
    NetlocFactsTo ip (plainJoin ([91] ++ x ++ [93]) port) (plainJoin ([91] ++ y ++ [93]) port)
      none := by
  have hcl := h.clean laws
  have hy := h.out laws
  have h58 : 58 ∈ x := laws.colon x y h.norm
  have h64 : 64 ∉ x := fun hm => (hcl 64 hm).2.2.1 rfl
  have h93 : 93 ∉ x := fun hm => (hcl 93 hm).2.1 rfl
  have h91 : 91 ∉ x := fun hm => (hcl 91 hm).1 rfl
  have hne : x ≠ [] := by intro e; rw [e] at h58; cases h58
  have hlow : lowerUntilPct x = x := lowerUntilPct_id h.lower
  have hshape := bracket_shape (t := x) port
  have hrh := rawHostname_bracket port h64 h93
  have huri : ∀ c ∈ plainJoin ([91] ++ x ++ [93]) port, isUriChar c = true := by
    intro c hm
    rcases mem_plainJoin hm with h1 | h1 | h1
    · simp only [List.cons_append, List.nil_append, List.mem_cons,
        List.mem_append, List.not_mem_nil, or_false] at h1
      rcases h1 with rfl | h1 | rfl
      · decide
      · exact h.uriChars laws c h1
      · decide
    · subst h1; decide
    · exact uriChar_of_digit h1
  refine
    { clean := ?_, uriChars := huri, brackets := ?_, hostname := ?_,
      userinfo := hasUserinfo_bracket port h64, literal := literalOk_bracket port h91 h93 h.zone,
      port := ⟨port, portOf_bracket port h64 h93 hp⟩,
      undecided := ?_ }
  · intro c hm
    rcases mem_plainJoin hm with h1 | h1 | h1
    · simp only [List.cons_append, List.nil_append, List.mem_cons,
        List.mem_append, List.not_mem_nil, or_false] at h1
      rcases h1 with rfl | h1 | rfl
      · decide
      · exact ⟨(hcl c h1).2.2.2.1, (hcl c h1).2.2.2.2⟩
      · decide
    · subst h1; decide
    · have := isDigit_range h1
      simp only [isUnsafeWs, isNetlocDelim, Bool.or_eq_false_iff, beq_eq_false_iff_ne, ne_eq]
      omega
  · unfold bracketsOk
    rw [hshape]
    have c91 : (91 :: (x ++ 93 :: portSuffix port)).contains 91 = true := by simp
    have c93 : (91 :: (x ++ 93 :: portSuffix port)).contains 93 = true := by simp
    rw [c91, c93]
    simp only [bne_self_eq_false, Bool.false_eq_true, ↓reduceIte]
    have h2 : after 91 (91 :: (x ++ 93 :: portSuffix port)) = x ++ 93 :: portSuffix port :=
      after_append (a := []) _ (by simp)
    rw [h2, before_append _ h93]
    unfold bracketedOk
    have hv := h.notV laws
    cases x with
    | nil => exact absurd rfl hne
    | cons c r =>
      have hc : c ≠ 118 := by intro e; exact hv (by simp [e])
      split
      · rename_i t' heq; simp only [List.cons.injEq] at heq; exact absurd heq.1 hc
      · simp [h.norm]
  · refine ⟨x, ?_, Or.inl ⟨?_, rfl⟩⟩
    · unfold hostnameOf
      simp only [hrh, hne, ↓reduceIte, hlow]
    · rw [hshape]; simp
  · unfold undecidedHostinfo hostportsplit
    have c91 : (plainJoin ([91] ++ x ++ [93]) port).contains 91 = true := by rw [hshape]; simp
    rw [c91]
    simp only [↓reduceIte, portOf_bracket port h64 h93 hp]
    unfold hostnameOf
    simp only [hrh, hne, ↓reduceIte, hlow]
    unfold ipNormAny
    rw [ip4Strict_false_of_colon h58]
    simp only [Bool.false_eq_true, ↓reduceIte, h.norm]
    have h91y : 91 ∉ y := fun hm => (hy.clean 91 hm).1 rfl
    rw [hostportjoin_bracket port hy.colon h91y]

/-- `hostportjoin` of a Uri-Host value that passes as an address: `[x]` with the brackets the
value may have had taken off first -/
theorem hostportjoin_address {h x : Bytes} (hx : unbracket h = x) (h58 : 58 ∈ x) (h91 : 91 ∉ x)
    (port : Option Nat) : hostportjoin h port = plainJoin ([91] ++ x ++ [93]) port := by
  unfold unbracket at hx
  by_cases hb : (h.head? == some 91 && h.getLast? == some 93) = true
  · rw [if_pos hb] at hx
    simp only [Bool.and_eq_true, beq_iff_eq] at hb
    have hs := bracketed_shape (by decide : (91 : Nat) ≠ 93) hb.1 hb.2
    rw [hx] at hs
    unfold hostportjoin plainJoin portSuffix
    simp only [hb.1, hb.2, BEq.rfl, Bool.and_self, Bool.not_true, Bool.and_false,
      Bool.false_eq_true, ↓reduceIte]
    rw [← hs]
    cases port <;> simp
  · rw [if_neg hb] at hx
    subst hx
    exact hostportjoin_bracket port h58 h91

-- the main statement -------------------------------------------------------------------------

theorem movedToRemote_of_accepted {ip : IpOracle} (laws : IpLaws ip) {u : Bytes} (hu : u.wf)
    {o : Opts} (hok : setRequestUri ip u = .ok o) {h : Bytes} (huh : o.uriHost = some h)
    (hip : ¬ NotIpText ip h) : ∃ u' o', MovedToRemote ip o h u' o' := by
  obtain ⟨p, hsplit, A⟩ := setRequestUri_ok_inv hok
  have S := urlsplit_facts hsplit
  obtain ⟨hn, hhn, hcase⟩ := A.host
  obtain ⟨port, hport⟩ := A.port
  obtain ⟨hrawne, hhneq⟩ := hostnameOf_inv hhn
  have hnne : p.netloc ≠ [] := by
    intro e
    rw [e] at hrawne
    simp [rawHostname, hostinfoOf, afterLast, before, takeUntil] at hrawne
  have hsch : o.scheme ∈ coapSchemes := by rw [A.oscheme]; exact A.scheme
  have hp : SegsOk o.path :=
    segsOk_path (fun c hc => hu c (S.path_mem c hc)) (S.path hnne) A.path
  have hq : SegsOk o.query := segsOk_query (fun c hc => hu c (S.query_mem c hc)) A.query
  have hport65 : ∀ q, port = some q → q ≤ 65535 := by
    intro q hq'; subst hq'; exact portOf_le hport
  -- a Uri-Host option was set: the authority has no bracket
  have h91 : 91 ∉ p.netloc := by
    intro hm
    obtain ⟨r, hnr, _⟩ := literalOk_inv A.literal hm
    have hhead : (p.netloc.head? == some 91) = true := by rw [hnr]; simp
    rcases hcase with ⟨_, hnone⟩ | ⟨hf, _⟩
    · rw [huh] at hnone; cases hnone
    · rw [hhead] at hf; simp at hf
  have hhi : o.hostinfo = p.netloc := by
    have := A.hostinfo
    rw [undecided_plain ip h91] at this
    injection this with this
    exact this.symm
  have hhne : h ≠ [] := by
    intro e
    apply hip
    subst e
    exact ⟨by decide, by simp [passesAsAddress]⟩
  have hcn : composeNetloc ip o = some (hostportjoin (escHost ip h) port) := by
    unfold composeNetloc
    rw [huh, A.uriPort, hhi]
    simp only [Option.isSome_some, Bool.true_or, ↓reduceIte, hostportsplit, hport, hhn, pyOr,
      ne_eq, hhne, not_false_eq_true]
  have hpo : portOf o.hostinfo = some port := by rw [hhi]; exact hport
  -- which kind of literal?
  by_cases h4 : ip4Looking h = true
  · -- a dotted quad
    have hfacts : NetlocFacts ip (plainJoin h port) none := netlocFacts_ip4 h4 port hport65
    have hne := netlocFacts_ne_nil hfacts
    have h58 : 58 ∉ h := by
      intro hm
      rcases ip4Looking_chars h4 58 hm with h' | h'
      · simp [isDigit] at h'
      · cases h'
    have hnl : hostportjoin (escHost ip h) port = plainJoin h port := by
      rw [escHost_ip4 h4, hostportjoin_plain port h58]
    rw [hnl] at hcn
    let o' : Opts := { scheme := o.scheme, hostinfo := plainJoin h port, uriHost := none,
                       uriPort := none, path := o.path, query := o.query }
    have hget : getRequestUri ip o
        = some (render o.scheme (plainJoin h port) (encodePath o.path) (encodeQuery o.query)) := by
      unfold getRequestUri; rw [hcn]; simp [hne]
    have hset := setRequestUri_render (ip := ip) hsch hfacts hp hq
    have hsettle := normalForm_literal (o := o') hsch rfl rfl hfacts hp hq
    refine ⟨_, o', hget, hset, rfl, rfl, ?_, rfl, rfl, ?_, ?_, ?_,
      render_uriChars hsch hfacts.uriChars hp hq⟩
    · rw [A.uriPort]
    · show portOf (plainJoin h port) = portOf o.hostinfo
      rw [hpo]
      have hc := ip4Looking_chars h4
      have hex : ∀ c, (isDigit c = false) → c ≠ 46 → c ∉ h := by
        intro c h1 h2 hm
        rcases hc c hm with h' | h'
        · rw [h1] at h'; cases h'
        · exact h2 h'
      exact portOf_plain port h58 (hex 64 (by decide) (by decide)) (hex 91 (by decide) (by decide))
        hport65
    · show hostnameOf (plainJoin h port) = _
      rw [if_pos h4]
      exact hostnameOf_ip4 h4 port
    · obtain ⟨u'', hnf⟩ := hsettle
      exact ⟨u'', hnf⟩
  · -- an IPv6 text, bare or in a pair of brackets
    have hpa : passesAsAddress ip h = true := by
      by_cases hpa : passesAsAddress ip h = true
      · exact hpa
      · exact absurd ⟨by simpa using h4, by simpa using hpa⟩ hip
    have hpa' := hpa
    unfold passesAsAddress at hpa'
    simp only [Bool.and_eq_true, Bool.or_eq_true] at hpa'
    obtain ⟨⟨_, hsome⟩, hz⟩ := hpa'
    obtain ⟨y, hy⟩ := Option.isSome_iff_exists.mp hsome
    -- the option value has no upper-case letter: it is `asciiLower` of something
    have hlow : ∀ c ∈ h, isUpper c = false := by
      rcases hcase with ⟨_, hnone⟩ | ⟨_, h0, _, hsome'⟩
      · rw [huh] at hnone; cases hnone
      · rw [huh] at hsome'
        injection hsome' with hsome'
        rw [hsome']
        exact asciiLower_no_upper h0
    have hsub : ∀ c ∈ unbracket h, c ∈ h := by
      intro c hc
      unfold unbracket at hc
      split at hc
      · exact List.mem_of_mem_drop (List.dropLast_subset _ hc)
      · exact hc
    have hin : Ip6In ip (unbracket h) y := ⟨hy, hz, fun c hc => hlow c (hsub c hc)⟩
    have hcl := hin.clean laws
    have h58 : 58 ∈ unbracket h := laws.colon _ y hy
    have h91x : 91 ∉ unbracket h := fun hm => (hcl 91 hm).1 rfl
    have hfacts := netlocFactsTo_ip6 laws hin port hport65
    have hnl : hostportjoin (escHost ip h) port = plainJoin ([91] ++ unbracket h ++ [93]) port := by
      unfold escHost
      rw [if_pos hpa]
      exact hostportjoin_address rfl h58 h91x port
    rw [hnl] at hcn
    have hne : plainJoin ([91] ++ unbracket h ++ [93]) port ≠ [] := by
      rw [bracket_shape]; simp
    have hne' : ¬ plainJoin (91 :: (unbracket h ++ [93])) port = [] := by
      simpa using hne
    let o' : Opts := { scheme := o.scheme, hostinfo := plainJoin ([91] ++ y ++ [93]) port,
                       uriHost := none, uriPort := none, path := o.path, query := o.query }
    have hget : getRequestUri ip o
        = some (render o.scheme (plainJoin ([91] ++ unbracket h ++ [93]) port) (encodePath o.path)
            (encodeQuery o.query)) := by
      unfold getRequestUri; rw [hcn]; simp [hne']
    have hset := setRequestUri_render (ip := ip) hsch hfacts hp hq
    have hyt := hin.out laws
    have hfacts' : NetlocFacts ip (plainJoin ([91] ++ y ++ [93]) port) none :=
      netlocFacts_ip6 hyt port hport65
    have hsettle := normalForm_literal (o := o') hsch rfl rfl hfacts' hp hq
    have h64y : 64 ∉ y := fun hm => (hyt.clean 64 hm).2.2.1 rfl
    have h93y : 93 ∉ y := fun hm => (hyt.clean 93 hm).2.1 rfl
    refine ⟨_, o', hget, hset, rfl, rfl, ?_, rfl, rfl, ?_, ?_, ?_,
      render_uriChars hsch hfacts.uriChars hp hq⟩
    · rw [A.uriPort]
    · show portOf (plainJoin ([91] ++ y ++ [93]) port) = portOf o.hostinfo
      rw [hpo]
      exact portOf_bracket port h64y h93y hport65
    · show hostnameOf (plainJoin ([91] ++ y ++ [93]) port) = _
      rw [if_neg h4, hy]
      have hney : y ≠ [] := by intro e; have := hyt.colon; rw [e] at this; cases this
      unfold hostnameOf
      simp only [rawHostname_bracket port h64y h93y, hney, ↓reduceIte, hyt.lower]
    · obtain ⟨u'', hnf⟩ := hsettle
      exact ⟨u'', hnf⟩

/-- URI → options → URI for **every** accepted text: either the exact normal form, or — when the
Uri-Host value spells an IP literal — the destination moves to the remote -/
theorem uri_opts_uri_total {ip : IpOracle} (laws : IpLaws ip) {u : Bytes} (hu : u.wf)
    {o : Opts} (hok : setRequestUri ip u = .ok o) :
    (∃ u' o', NormalForm ip o u' o') ∨
    (∃ h u' o', o.uriHost = some h ∧ ¬ NotIpText ip h ∧ MovedToRemote ip o h u' o') := by
  cases huh : o.uriHost with
  | none =>
    left
    exact normalForm_of_accepted laws hu hok (fun h hh => by rw [huh] at hh; cases hh)
  | some h =>
    by_cases hip : NotIpText ip h
    · left
      exact normalForm_of_accepted laws hu hok
        (fun h' hh => by rw [huh] at hh; injection hh with hh; subst hh; exact hip)
    · right
      obtain ⟨u', o', hm⟩ := movedToRemote_of_accepted laws hu hok huh hip
      exact ⟨h, u', o', rfl, hip, hm⟩

end Aiocoap.Uri
