import Proofs.Uri.Netloc
/-! Canonical option sets: compose, decompose, injectivity (C16). -/
namespace Aiocoap.Uri

/-- the authority text of a resource -/
def Resource.netloc (ip : IpOracle) (r : Resource) : Bytes := (r.toOpts ip).hostinfo

theorem toOpts_netloc_name {ip : IpOracle} {r : Resource} {h : Bytes} (hh : r.host = .name h)
    (hk : NameOk ip h) : r.netloc ip = plainJoin (quote regNameSafe h) r.port := by
  have hc := regName_chars hk.wf
  have h58 : 58 ∉ quote regNameSafe h := fun hm => (hc 58 hm).2.2.1 rfl
  simp only [Resource.netloc, Resource.toOpts, hh, escHost_name hk, hostportjoin_plain _ h58]

theorem toOpts_netloc_ip4 {ip : IpOracle} {r : Resource} {t : Bytes} (hh : r.host = .ip4 t)
    (ht : ip4Looking t = true) : r.netloc ip = plainJoin t r.port := by
  have h58 : 58 ∉ t := by
    intro hm
    rcases ip4Looking_chars ht 58 hm with h | h
    · simp [isDigit] at h
    · cases h
  simp only [Resource.netloc, Resource.toOpts, hh, hostportjoin_plain _ h58]

theorem toOpts_netloc_ip6 {ip : IpOracle} {r : Resource} {t : Bytes} (hh : r.host = .ip6 t)
    (ht : Ip6Text ip t) : r.netloc ip = plainJoin ([91] ++ t ++ [93]) r.port := by
  have h91 : 91 ∉ t := fun hm => (ht.clean 91 hm).1 rfl
  simp only [Resource.netloc, Resource.toOpts, hh, hostportjoin_bracket _ ht.colon h91]

theorem toOpts_facts {ip : IpOracle} {r : Resource} (h : r.WF ip) :
    NetlocFacts ip (r.netloc ip) (r.toOpts ip).uriHost := by
  have hw := h.host
  cases hh : r.host with
  | name x =>
    rw [hh] at hw
    rw [toOpts_netloc_name hh hw]
    simpa [Resource.toOpts, hh] using netlocFacts_name hw r.port h.port
  | ip4 t =>
    rw [hh] at hw
    rw [toOpts_netloc_ip4 hh hw]
    simpa [Resource.toOpts, hh] using netlocFacts_ip4 (ip := ip) hw r.port h.port
  | ip6 t =>
    rw [hh] at hw
    rw [toOpts_netloc_ip6 hh hw]
    simpa [Resource.toOpts, hh] using netlocFacts_ip6 hw r.port h.port

theorem toOpts_eq (ip : IpOracle) (r : Resource) :
    r.toOpts ip = { scheme := r.scheme, hostinfo := r.netloc ip, uriHost := (r.toOpts ip).uriHost,
                    uriPort := none, path := r.path, query := r.query } := by
  cases hh : r.host <;> simp [Resource.toOpts, Resource.netloc, hh]

theorem netlocFacts_ne_nil {ip : IpOracle} {n : Bytes} {uh : Option Bytes}
    (h : NetlocFacts ip n uh) : n ≠ [] := by
  rintro rfl
  obtain ⟨hn, hh, _⟩ := h.hostname
  simp [hostnameOf, rawHostname, hostinfoOf, afterLast, before, takeUntil] at hh

/-- `get_request_uri` of a canonical option set: the plain rendering of its parts -/
theorem getRequestUri_toOpts {ip : IpOracle} {r : Resource} (h : r.WF ip) :
    getRequestUri ip (r.toOpts ip)
      = some (render r.scheme (r.netloc ip) (encodePath r.path) (encodeQuery r.query)) := by
  have hf := toOpts_facts h
  have hne := netlocFacts_ne_nil hf
  have hcn : composeNetloc ip (r.toOpts ip) = some (r.netloc ip) := by
    have hw := h.host
    cases hh : r.host with
    | name x =>
      rw [hh] at hw
      have hnl := toOpts_netloc_name hh hw
      have hc := regName_chars hw.wf
      have h58 : 58 ∉ quote regNameSafe x := fun hm => (hc 58 hm).2.2.1 rfl
      have h64 : 64 ∉ quote regNameSafe x := fun hm => (hc 64 hm).2.2.2.1 rfl
      have h91 : 91 ∉ quote regNameSafe x := fun hm => (hc 91 hm).2.2.2.2.1 rfl
      unfold composeNetloc
      have e1 : (r.toOpts ip).uriHost = some x := by simp [Resource.toOpts, hh]
      have e2 : (r.toOpts ip).uriPort = none := by simp [Resource.toOpts, hh]
      have e3 : (r.toOpts ip).hostinfo = plainJoin (quote regNameSafe x) r.port := hnl
      rw [e1, e2, e3]
      simp only [Option.isSome_some, Bool.true_or, ↓reduceIte, hostportsplit,
        portOf_plain r.port h58 h64 h91 h.port, pyOr, ne_eq, hw.ne, not_false_eq_true]
      rw [escHost_name hw, hostportjoin_plain _ h58, hnl]
    | ip4 t => simp [composeNetloc, Resource.toOpts, Resource.netloc, hh]
    | ip6 t => simp [composeNetloc, Resource.toOpts, Resource.netloc, hh]
  unfold getRequestUri
  rw [hcn]
  simp only [hne, ↓reduceIte]
  rw [toOpts_eq ip r]

theorem portOf_netloc {ip : IpOracle} {r : Resource} (h : r.WF ip) :
    portOf (r.netloc ip) = some r.port := by
  have hw := h.host
  cases hh : r.host with
  | name x =>
    rw [hh] at hw
    have hc := regName_chars hw.wf
    rw [toOpts_netloc_name hh hw]
    exact portOf_plain r.port (fun hm => (hc 58 hm).2.2.1 rfl) (fun hm => (hc 64 hm).2.2.2.1 rfl)
      (fun hm => (hc 91 hm).2.2.2.2.1 rfl) h.port
  | ip4 t =>
    rw [hh] at hw
    have hex : ∀ c, (isDigit c = false) → c ≠ 46 → c ∉ t := by
      intro c h1 h2 hm
      rcases ip4Looking_chars hw c hm with h' | h'
      · rw [h1] at h'; cases h'
      · exact h2 h'
    rw [toOpts_netloc_ip4 hh hw]
    exact portOf_plain r.port (hex 58 (by decide) (by decide)) (hex 64 (by decide) (by decide))
      (hex 91 (by decide) (by decide)) h.port
  | ip6 t =>
    rw [hh] at hw
    rw [toOpts_netloc_ip6 hh hw]
    exact portOf_bracket r.port (fun hm => (hw.clean 64 hm).2.2.1 rfl)
      (fun hm => (hw.clean 93 hm).2.1 rfl) h.port

/-- the host text inside the authority of a canonical option set -/
theorem rawHostname_netloc {ip : IpOracle} {r : Resource} (h : r.WF ip) :
    rawHostname (r.netloc ip) = match r.host with
      | .name x => quote regNameSafe x
      | .ip4 t => t
      | .ip6 t => t := by
  have hw := h.host
  cases hh : r.host with
  | name x =>
    rw [hh] at hw
    have hc := regName_chars hw.wf
    rw [toOpts_netloc_name hh hw]
    exact rawHostname_plain r.port (fun hm => (hc 58 hm).2.2.1 rfl)
      (fun hm => (hc 64 hm).2.2.2.1 rfl) (fun hm => (hc 91 hm).2.2.2.2.1 rfl)
  | ip4 t =>
    rw [hh] at hw
    have hex : ∀ c, (isDigit c = false) → c ≠ 46 → c ∉ t := by
      intro c h1 h2 hm
      rcases ip4Looking_chars hw c hm with h' | h'
      · rw [h1] at h'; cases h'
      · exact h2 h'
    rw [toOpts_netloc_ip4 hh hw]
    exact rawHostname_plain r.port (hex 58 (by decide) (by decide)) (hex 64 (by decide) (by decide))
      (hex 91 (by decide) (by decide))
  | ip6 t =>
    rw [hh] at hw
    rw [toOpts_netloc_ip6 hh hw]
    exact rawHostname_bracket r.port (fun hm => (hw.clean 64 hm).2.2.1 rfl)
      (fun hm => (hw.clean 93 hm).2.1 rfl)

end Aiocoap.Uri
