import AiocoapModel.Uri.Compose
import Proofs.Uri.HostPort
/-! Splitting the text that `render` produced gives the parts back (C16). -/
namespace Aiocoap.Uri

/-- `?query` or nothing, as `urlunparse` appends it -/
def queryPart (q : Bytes) : Bytes := if q = [] then [] else 63 :: q

theorem render_eq {s : Bytes} (hs : s ≠ []) (n p q : Bytes) :
    render s n p q = s ++ 58 :: 47 :: 47 :: (n ++ (p ++ queryPart q)) := by
  simp [render, hs, queryPart]

/-- the four parts are such that no delimiter of an outer level occurs inside them -/
structure CleanParts (s n p q : Bytes) : Prop where
  scheme_head : ∃ c r, s = c :: r ∧ isAlpha c = true
  scheme_chars : ∀ c ∈ s, isSchemeChar c = true ∧ isUpper c = false
  netloc : ∀ c ∈ n, isNetlocDelim c = false ∧ isUnsafeWs c = false
  path_head : ∃ r, p = 47 :: r
  path : ∀ c ∈ p, c ≠ 63 ∧ c ≠ 35 ∧ isUnsafeWs c = false
  query : ∀ c ∈ q, c ≠ 35 ∧ isUnsafeWs c = false

theorem schemeChar_facts {c : Nat} (h : isSchemeChar c = true) :
    c ≠ 58 ∧ isUnsafeWs c = false ∧ isC0Space c = false := by
  simp only [isSchemeChar, isAlpha, isUpper, isLower, isDigit, Bool.or_eq_true, Bool.and_eq_true,
    decide_eq_true_eq, beq_iff_eq] at h
  simp only [isUnsafeWs, isC0Space, Bool.or_eq_false_iff, beq_eq_false_iff_ne, ne_eq,
    decide_eq_false_iff_not]
  omega

theorem mem_queryPart {q : Bytes} {c : Nat} (h : c ∈ queryPart q) : c = 63 ∨ c ∈ q := by
  unfold queryPart at h
  split at h
  · simp at h
  · simpa using h

theorem sanitise_clean {s n p q : Bytes} (h : CleanParts s n p q) :
    sanitise (render s n p q) = render s n p q := by
  obtain ⟨c0, r0, hs, hc0⟩ := h.scheme_head
  have hne : s ≠ [] := by rw [hs]; simp
  rw [render_eq hne]
  unfold sanitise
  have h0 : isC0Space c0 = false := by
    have := (h.scheme_chars c0 (by rw [hs]; simp)).1
    exact (schemeChar_facts this).2.2
  have hdw : List.dropWhile isC0Space (s ++ 58 :: 47 :: 47 :: (n ++ (p ++ queryPart q)))
      = s ++ 58 :: 47 :: 47 :: (n ++ (p ++ queryPart q)) := by
    rw [hs]; simp [h0]
  rw [hdw, List.filter_eq_self]
  intro c hc
  simp only [List.mem_append, List.mem_cons] at hc
  simp only [Bool.not_eq_eq_eq_not, Bool.not_true]
  rcases hc with hc | rfl | rfl | rfl | hc | hc | hc
  · exact (schemeChar_facts (h.scheme_chars c hc).1).2.1
  · rfl
  · rfl
  · rfl
  · exact (h.netloc c hc).2
  · exact (h.path c hc).2.2
  · rcases mem_queryPart hc with rfl | hc
    · rfl
    · exact (h.query c hc).2

theorem splitScheme_clean {s : Bytes} (rest : Bytes) (hhead : ∃ c r, s = c :: r ∧ isAlpha c = true)
    (hchars : ∀ c ∈ s, isSchemeChar c = true ∧ isUpper c = false) :
    splitScheme (s ++ 58 :: rest) = (s, rest) := by
  obtain ⟨c0, r0, hs, hc0⟩ := hhead
  have h58 : 58 ∉ s := fun hm => (schemeChar_facts (hchars 58 hm).1).1 rfl
  have h1 : (s ++ 58 :: rest).contains 58 = true := by simp
  have h2 : s.all isSchemeChar = true := by
    rw [List.all_eq_true]; exact fun c hc => (hchars c hc).1
  have h3 : asciiLower s = s := asciiLower_id (fun c hc => (hchars c hc).2)
  have hok : schemeOk (s ++ 58 :: rest) = true := by
    unfold schemeOk
    rw [before_append _ h58, h1, h2]
    subst hs
    simp [hc0]
  unfold splitScheme
  rw [hok, before_append _ h58, after_append _ h58, h3]
  rfl

theorem splitAuthority_render {s n p q : Bytes} (h : CleanParts s n p q) :
    splitAuthority (render s n p q) = (s, n, p ++ queryPart q) := by
  unfold splitAuthority
  rw [sanitise_clean h]
  obtain ⟨c0, r0, hs, hc0⟩ := h.scheme_head
  have hne : s ≠ [] := by rw [hs]; simp
  rw [render_eq hne, splitScheme_clean _ h.scheme_head h.scheme_chars]
  obtain ⟨pr, hp⟩ := h.path_head
  simp only
  have hn : ∀ x ∈ n, isNetlocDelim x = false := fun x hx => (h.netloc x hx).1
  rw [hp]
  simp only [List.cons_append]
  rw [takeUntil_append_hit _ hn (by decide), dropUntil_append_hit _ hn (by decide)]

/-- splitting what `render` produced from clean parts gives exactly these parts -/
theorem urlsplit_render (ip : IpOracle) {s n p q : Bytes} (h : CleanParts s n p q) :
    urlsplit ip (render s n p q) =
      if bracketsOk ip n && !nfkcBad n then
        some { scheme := s, netloc := n, path := p, query := q, fragment := [] }
      else none := by
  unfold urlsplit
  rw [splitAuthority_render h]
  simp only
  have h35 : 35 ∉ p ++ queryPart q := by
    intro hm
    simp only [List.mem_append] at hm
    rcases hm with hm | hm
    · exact (h.path 35 hm).2.1 rfl
    · rcases mem_queryPart hm with hm | hm
      · cases hm
      · exact (h.query 35 hm).1 rfl
  have h63 : 63 ∉ p := fun hm => (h.path 63 hm).1 rfl
  rw [before_of_not_mem h35, after_of_not_mem h35]
  by_cases hb : bracketsOk ip n = true
  · by_cases hk : nfkcBad n = true
    · simp [hb, hk]
    · simp only [hb, hk, Bool.not_true, Bool.not_false, Bool.and_self, Bool.false_eq_true,
        ↓reduceIte]
      unfold queryPart
      by_cases hq : q = []
      · subst hq
        simp [before_of_not_mem h63, after_of_not_mem h63]
      · simp only [hq, ↓reduceIte]
        rw [before_append _ h63, after_append _ h63]
  · simp [hb]

/-- an all-ASCII authority passes the NFKC check of `urlsplit` -/
theorem nfkcBad_ascii {n : Bytes} (h : ∀ c ∈ n, c < 128) : nfkcBad n = false := by
  unfold nfkcBad
  have : n.any (fun c => decide (128 ≤ c)) = false := by
    rw [List.any_eq_false]
    intro c hc
    have := h c hc
    simp only [decide_eq_true_eq]
    omega
  rw [this]
  rfl

/-- what `render` produces from clean parts contains no `#` -/
theorem render_no_hash {s n p q : Bytes} (h : CleanParts s n p q) : 35 ∉ render s n p q := by
  obtain ⟨c0, r0, hs, hc0⟩ := h.scheme_head
  have hne : s ≠ [] := by rw [hs]; simp
  rw [render_eq hne]
  intro hm
  simp only [List.mem_append, List.mem_cons] at hm
  rcases hm with hm | hm | hm | hm | hm | hm | hm
  · exact absurd (h.scheme_chars 35 hm).1 (by decide)
  · cases hm
  · cases hm
  · cases hm
  · exact absurd (h.netloc 35 hm).1 (by decide)
  · exact (h.path 35 hm).2.1 rfl
  · rcases mem_queryPart hm with hm | hm
    · cases hm
    · exact (h.query 35 hm).1 rfl

end Aiocoap.Uri
