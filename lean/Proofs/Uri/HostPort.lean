import AiocoapModel.Uri.HostPort
import Proofs.Uri.Percent
/-! Lemmas about host/port texts (C16). -/
namespace Aiocoap.Uri

theorem not_mem_natToDec {c : Nat} (n : Nat) (h : isDigit c = false) : c ∉ natToDec n := by
  intro hc
  rw [natToDec_digits n c hc] at h
  cases h

theorem contains_false_of_not_mem {c : Nat} {s : Bytes} (h : c ∉ s) : s.contains c = false := by
  simpa using h

theorem contains_true_of_mem {c : Nat} {s : Bytes} (h : c ∈ s) : s.contains c = true := by
  simpa using h

/-- the digits of an optional port -/
def portDigits : Option Nat → Bytes
  | none => []
  | some p => natToDec p

/-- `:port` or nothing -/
def portSuffix : Option Nat → Bytes
  | none => []
  | some p => 58 :: natToDec p

/-- the authority text of a host and optional port, host not bracketed -/
def plainJoin (e : Bytes) (port : Option Nat) : Bytes := e ++ portSuffix port

theorem hostportjoin_plain {e : Bytes} (port : Option Nat) (h : 58 ∉ e) :
    hostportjoin e port = plainJoin e port := by
  unfold hostportjoin plainJoin portSuffix
  simp only [contains_false_of_not_mem h, Bool.false_and, Bool.false_eq_true, ↓reduceIte]
  cases port <;> simp

theorem hostportjoin_bracket {t : Bytes} (port : Option Nat) (h : 58 ∈ t) (hb : 91 ∉ t) :
    hostportjoin t port = plainJoin ([91] ++ t ++ [93]) port := by
  unfold hostportjoin plainJoin
  have hh : (t.head? == some 91) = false := by
    cases t with
    | nil => rfl
    | cons x r =>
      have : x ≠ 91 := fun e => hb (by simp [e])
      simp [this]
  unfold portSuffix
  simp only [contains_true_of_mem h, hh, Bool.false_and, Bool.not_false, Bool.and_self, ↓reduceIte]
  cases port <;> simp

theorem mem_plainJoin {e : Bytes} {port : Option Nat} {c : Nat} (h : c ∈ plainJoin e port) :
    c ∈ e ∨ c = 58 ∨ isDigit c = true := by
  cases port with
  | none => exact Or.inl (by simpa [plainJoin, portSuffix] using h)
  | some p =>
    simp only [plainJoin, portSuffix, List.mem_append, List.mem_cons] at h
    rcases h with h | h | h
    · exact Or.inl h
    · exact Or.inr (Or.inl h)
    · exact Or.inr (Or.inr (natToDec_digits p c h))

-- the accessors on `e[:port]` for a host text without `:`, `@`, `[` -----------------------

section plain
variable {e : Bytes} (port : Option Nat)

theorem hostinfoOf_plain (h64 : 64 ∉ e) : hostinfoOf (plainJoin e port) = plainJoin e port := by
  unfold hostinfoOf
  apply afterLast_of_not_mem
  intro hc
  rcases mem_plainJoin hc with h | h | h
  · exact h64 h
  · cases h
  · simp [isDigit] at h

theorem not_mem_plainJoin {c : Nat} (hc : c ∉ e) (h58 : c ≠ 58) (hd : isDigit c = false) :
    c ∉ plainJoin e port := by
  intro hm
  rcases mem_plainJoin hm with h | h | h
  · exact hc h
  · exact h58 h
  · rw [hd] at h; cases h

theorem rawHostname_plain (h58 : 58 ∉ e) (h64 : 64 ∉ e) (h91 : 91 ∉ e) :
    rawHostname (plainJoin e port) = e := by
  unfold rawHostname
  simp only [hostinfoOf_plain port h64]
  rw [contains_false_of_not_mem (not_mem_plainJoin port h91 (by decide) (by decide))]
  simp only [Bool.false_eq_true, ↓reduceIte]
  cases port with
  | none => simpa [plainJoin, portSuffix] using before_of_not_mem h58
  | some p => exact before_append _ h58

theorem rawPort_plain (h58 : 58 ∉ e) (h64 : 64 ∉ e) (h91 : 91 ∉ e) :
    rawPort (plainJoin e port) = portDigits port := by
  unfold rawPort
  simp only [hostinfoOf_plain port h64]
  rw [contains_false_of_not_mem (not_mem_plainJoin port h91 (by decide) (by decide))]
  simp only [Bool.false_eq_true, ↓reduceIte]
  cases port with
  | none => simpa [plainJoin, portSuffix, portDigits] using after_of_not_mem h58
  | some p => exact after_append _ h58

theorem portOf_plain (h58 : 58 ∉ e) (h64 : 64 ∉ e) (h91 : 91 ∉ e)
    (hp : ∀ p, port = some p → p ≤ 65535) : portOf (plainJoin e port) = some port := by
  unfold portOf
  simp only [rawPort_plain port h58 h64 h91]
  cases port with
  | none => simp [portDigits]
  | some p =>
    simp only [portDigits, natToDec_ne_nil, ↓reduceIte, allDigits_natToDec, decToNat_natToDec, Bool.true_and,
      decide_eq_true_eq]
    rw [if_pos (hp p rfl)]

theorem hasUserinfo_plain (h64 : 64 ∉ e) : hasUserinfo (plainJoin e port) = false := by
  unfold hasUserinfo
  rw [contains_false_of_not_mem (not_mem_plainJoin port h64 (by decide) (by decide))]

end plain

-- the accessors on `[t][:port]` ---------------------------------------------------------

section bracket
variable {t : Bytes} (port : Option Nat)

theorem hostinfoOf_bracket (h64 : 64 ∉ t) :
    hostinfoOf (plainJoin ([91] ++ t ++ [93]) port) = plainJoin ([91] ++ t ++ [93]) port := by
  apply hostinfoOf_plain
  simp [h64]

theorem bracket_shape : plainJoin ([91] ++ t ++ [93]) port = 91 :: (t ++ 93 :: portSuffix port) := by
  simp [plainJoin]

theorem rawHostname_bracket (h64 : 64 ∉ t) (h93 : 93 ∉ t) :
    rawHostname (plainJoin ([91] ++ t ++ [93]) port) = t := by
  unfold rawHostname
  simp only [hostinfoOf_bracket port h64]
  rw [bracket_shape]
  have h1 : (91 :: (t ++ 93 :: portSuffix port)).contains 91 = true := by simp
  rw [h1]
  simp only [↓reduceIte]
  have h2 : after 91 (91 :: (t ++ 93 :: portSuffix port)) = t ++ 93 :: portSuffix port :=
    after_append (a := []) _ (by simp)
  rw [h2, before_append _ h93]

theorem rawPort_bracket (h64 : 64 ∉ t) (h93 : 93 ∉ t) :
    rawPort (plainJoin ([91] ++ t ++ [93]) port) = portDigits port := by
  unfold rawPort
  simp only [hostinfoOf_bracket port h64]
  rw [bracket_shape]
  have h1 : (91 :: (t ++ 93 :: portSuffix port)).contains 91 = true := by simp
  rw [h1]
  simp only [↓reduceIte]
  have h2 : after 91 (91 :: (t ++ 93 :: portSuffix port)) = t ++ 93 :: portSuffix port :=
    after_append (a := []) _ (by simp)
  rw [h2, after_append _ h93]
  cases port with
  | none => rfl
  | some p => exact after_append (a := []) _ (by simp)

theorem portOf_bracket (h64 : 64 ∉ t) (h93 : 93 ∉ t) (hp : ∀ p, port = some p → p ≤ 65535) :
    portOf (plainJoin ([91] ++ t ++ [93]) port) = some port := by
  unfold portOf
  simp only [rawPort_bracket port h64 h93]
  cases port with
  | none => simp [portDigits]
  | some p =>
    simp only [portDigits, natToDec_ne_nil, ↓reduceIte, allDigits_natToDec, decToNat_natToDec, Bool.true_and,
      decide_eq_true_eq]
    rw [if_pos (hp p rfl)]

theorem hasUserinfo_bracket (h64 : 64 ∉ t) :
    hasUserinfo (plainJoin ([91] ++ t ++ [93]) port) = false := by
  apply hasUserinfo_plain
  simp [h64]

/-- `[t]` and `[t]:port` pass the bracket test of `set_request_uri` when `t` has no bracket of
its own and an unreserved zone identifier -/
theorem literalOk_bracket (h91 : 91 ∉ t) (h93 : 93 ∉ t) (hz : zoneOk t = true) :
    literalOk (plainJoin ([91] ++ t ++ [93]) port) = true := by
  unfold literalOk
  rw [bracket_shape]
  have h1 : (91 :: (t ++ 93 :: portSuffix port)).contains 91 = true := by simp
  rw [h1]
  simp only [Bool.true_or, ↓reduceIte]
  have h93' : 93 ∉ 91 :: t := by simp [h93]
  have hb : before 93 (91 :: (t ++ 93 :: portSuffix port)) = 91 :: t :=
    before_append (a := 91 :: t) _ h93'
  have ha : after 93 (91 :: (t ++ 93 :: portSuffix port)) = portSuffix port :=
    after_append (a := 91 :: t) _ h93'
  rw [hb, ha]
  have hz' : zoneOk (91 :: t) = true := by
    simpa [zoneOk, after, dropUntil] using hz
  have hps : portSuffix port = [] ∨ (portSuffix port).head? = some 58 := by
    cases port <;> simp [portSuffix]
  simp only [hz', List.head?_cons, BEq.rfl, List.drop_succ_cons, List.drop_zero,
    contains_false_of_not_mem h91, Bool.not_false, Bool.true_and, Bool.and_true,
    Bool.or_eq_true, beq_iff_eq, List.head?_eq_none_iff]
  exact hps

end bracket

theorem literalOk_plain {n : Bytes} (h91 : 91 ∉ n) (h93 : 93 ∉ n) : literalOk n = true := by
  unfold literalOk
  simp [h91, h93]

theorem zoneOk_iff {t : Bytes} : zoneOk t = true ↔ ∀ c ∈ after 37 t, isUnreserved c = true := by
  simp [zoneOk, List.all_eq_true]

/-- a text is what precedes its first `%`, that `%`, and what follows it -/
theorem mem_cases_pct {t : Bytes} {c : Nat} (h : c ∈ t) :
    c ∈ before 37 t ∨ c = 37 ∨ c ∈ after 37 t := by
  by_cases h37 : 37 ∈ t
  · have e := before_after_eq h37
    rw [e] at h
    simp only [List.mem_append, List.mem_cons] at h
    exact h
  · left
    rw [before_of_not_mem h37]
    exact h

/-- unreserved characters are neither brackets, `@`, authority delimiters nor dropped white space -/
theorem unreserved_facts {c : Nat} (h : isUnreserved c = true) :
    c ≠ 91 ∧ c ≠ 93 ∧ c ≠ 64 ∧ c ≠ 37 ∧ c ≠ 47 ∧ c ≠ 63 ∧ c ≠ 35 ∧ c ≠ 9 ∧ c ≠ 10 ∧ c ≠ 13 ∧ c ≠ 58 := by
  simp only [isUnreserved, isAlpha, isUpper, isLower, isDigit, Bool.or_eq_true, Bool.and_eq_true,
    decide_eq_true_eq, beq_iff_eq] at h
  omega

/-- so are hex digits, colons and dots -/
theorem addrChar_facts {c : Nat} (h : isHex c = true ∨ c = 58 ∨ c = 46) :
    c ≠ 91 ∧ c ≠ 93 ∧ c ≠ 64 ∧ c ≠ 37 ∧ c ≠ 47 ∧ c ≠ 63 ∧ c ≠ 35 ∧ c ≠ 9 ∧ c ≠ 10 ∧ c ≠ 13 := by
  simp only [isHex, isDigit, Bool.or_eq_true, Bool.and_eq_true, decide_eq_true_eq] at h
  omega

-- lower-casing ---------------------------------------------------------------------------

theorem lowerChar_of_not_upper {c : Nat} (h : isUpper c = false) : lowerChar c = c := by
  simp [lowerChar, h]

theorem lowerUntilPct_id {s : Bytes} (h : ∀ c ∈ s, isUpper c = false) : lowerUntilPct s = s := by
  induction s with
  | nil => rfl
  | cons x r ih =>
    simp only [lowerUntilPct]
    split
    · rfl
    · rw [lowerChar_of_not_upper (h x (by simp)), ih (fun c hc => h c (by simp [hc]))]

theorem lowerUntilPct_ne_nil {s : Bytes} (h : s ≠ []) : lowerUntilPct s ≠ [] := by
  cases s with
  | nil => exact absurd rfl h
  | cons x r => simp only [lowerUntilPct]; split <;> simp

theorem asciiLower_id {s : Bytes} (h : ∀ c ∈ s, isUpper c = false) : asciiLower s = s := by
  induction s with
  | nil => rfl
  | cons x r ih =>
    simp only [asciiLower, List.map_cons, List.cons.injEq]
    exact ⟨lowerChar_of_not_upper (h x (by simp)), ih (fun c hc => h c (by simp [hc]))⟩

theorem isUpper_lowerChar (c : Nat) : isUpper (lowerChar c) = false := by
  unfold lowerChar
  by_cases h : isUpper c = true
  · simp only [h, ↓reduceIte]
    simp only [isUpper, Bool.and_eq_true, decide_eq_true_eq] at h
    simp [isUpper]; omega
  · simp [h]

theorem asciiLower_no_upper (s : Bytes) : ∀ c ∈ asciiLower s, isUpper c = false := by
  intro c hc
  simp only [asciiLower, List.mem_map] at hc
  obtain ⟨x, _, rfl⟩ := hc
  exact isUpper_lowerChar x

theorem asciiLower_idem (s : Bytes) : asciiLower (asciiLower s) = asciiLower s :=
  asciiLower_id (asciiLower_no_upper s)

end Aiocoap.Uri
