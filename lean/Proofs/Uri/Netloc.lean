import Proofs.Uri.RoundTrip
/-! `NetlocFacts` for the three canonical authority forms (C16). -/
namespace Aiocoap.Uri

theorem head?_beq_false {n : Bytes} {c : Nat} (h : c ∉ n) : (n.head? == some c) = false := by
  cases n with
  | nil => rfl
  | cons x r =>
    have : x ≠ c := fun e => h (by simp [e])
    simp [this]

theorem bracketsOk_plain (ip : IpOracle) {n : Bytes} (h91 : 91 ∉ n) (h93 : 93 ∉ n) :
    bracketsOk ip n = true := by
  unfold bracketsOk
  simp [h91, h93]

theorem undecided_plain (ip : IpOracle) {n : Bytes} (h91 : 91 ∉ n) :
    undecidedHostinfo ip n = some n := by
  unfold undecidedHostinfo
  simp [h91]

-- reg-names ------------------------------------------------------------------------------

theorem quote_id_of_no_pct {S : Nat → Bool} {h : Bytes} (hp : 37 ∉ quote S h) : quote S h = h := by
  induction h with
  | nil => rfl
  | cons b r ih =>
    simp only [quote] at hp ⊢
    by_cases hs : S b = true
    · simp only [hs, ↓reduceIte, List.singleton_append, List.mem_cons, not_or] at hp ⊢
      rw [ih hp.2]
    · simp [hs] at hp

theorem lowerUntilPct_quote {S : Nat → Bool} (hS : S 37 = false) {h : Bytes}
    (hl : ∀ c ∈ h, isUpper c = false) : lowerUntilPct (quote S h) = quote S h := by
  induction h with
  | nil => rfl
  | cons b r ih =>
    simp only [quote]
    by_cases hs : S b = true
    · have hne : b ≠ 37 := by rintro rfl; rw [hS] at hs; cases hs
      simp only [hs, ↓reduceIte, List.singleton_append, lowerUntilPct, hne]
      rw [lowerChar_of_not_upper (hl b (by simp)), ih (fun c hc => hl c (by simp [hc]))]
    · simp [hs, lowerUntilPct]

theorem ip4Looking_chars {x : Bytes} (h : ip4Looking x = true) :
    ∀ c ∈ x, isDigit c = true ∨ c = 46 := by
  unfold ip4Looking at h
  simp only [Bool.and_eq_true, List.all_eq_true, Bool.or_eq_true, beq_iff_eq] at h
  exact fun c hc => h.1.2 c hc

theorem ip4Looking_ne_nil {x : Bytes} (h : ip4Looking x = true) : x ≠ [] := by
  rintro rfl
  simp [ip4Looking] at h

theorem ip4Looking_quote {S : Nat → Bool} {h : Bytes} (hn : ip4Looking h = false) :
    ip4Looking (quote S h) = false := by
  by_cases hq : ip4Looking (quote S h) = true
  · have hp : 37 ∉ quote S h := by
      intro hm
      rcases ip4Looking_chars hq 37 hm with h1 | h1
      · simp [isDigit] at h1
      · cases h1
    rw [quote_id_of_no_pct hp] at hq
    rw [hq] at hn; cases hn
  · simpa using hq

theorem regName_chars {h : Bytes} (hw : h.wf) : ∀ c ∈ quote regNameSafe h,
    isNetlocDelim c = false ∧ isUnsafeWs c = false ∧ c ≠ 58 ∧ c ≠ 64 ∧ c ≠ 91 ∧ c ≠ 93 := by
  intro c hc
  rcases quote_mem hw hc with h1 | h1 | h1 | h1
  · exact regNameSafe_facts h1
  · subst h1; decide
  · simp only [isUnsafeWs, isNetlocDelim, Bool.or_eq_false_iff, beq_eq_false_iff_ne, ne_eq]; omega
  · simp only [isUnsafeWs, isNetlocDelim, Bool.or_eq_false_iff, beq_eq_false_iff_ne, ne_eq]; omega

theorem escHost_name {ip : IpOracle} {h : Bytes} (hk : NameOk ip h) :
    escHost ip h = quote regNameSafe h := by
  unfold escHost
  rw [hk.notIp6]; rfl

/-- the authority `quote(host)[:port]` of a registered name -/
theorem netlocFacts_name {ip : IpOracle} {h : Bytes} (hk : NameOk ip h) (port : Option Nat)
    (hp : ∀ p, port = some p → p ≤ 65535) :
    NetlocFacts ip (plainJoin (quote regNameSafe h) port) (some h) := by
  have hc := regName_chars hk.wf
  have h58 : 58 ∉ quote regNameSafe h := fun hm => (hc 58 hm).2.2.1 rfl
  have h64 : 64 ∉ quote regNameSafe h := fun hm => (hc 64 hm).2.2.2.1 rfl
  have h91 : 91 ∉ quote regNameSafe h := fun hm => (hc 91 hm).2.2.2.2.1 rfl
  have h93 : 93 ∉ quote regNameSafe h := fun hm => (hc 93 hm).2.2.2.2.2 rfl
  have hne : quote regNameSafe h ≠ [] := fun e => hk.ne (quote_eq_nil.mp e)
  have n91 : 91 ∉ plainJoin (quote regNameSafe h) port :=
    not_mem_plainJoin port h91 (by decide) (by decide)
  have n93 : 93 ∉ plainJoin (quote regNameSafe h) port :=
    not_mem_plainJoin port h93 (by decide) (by decide)
  refine
    { clean := ?_, uriChars := ?_, brackets := bracketsOk_plain ip n91 n93, hostname := ?_,
      userinfo := hasUserinfo_plain port h64, literal := literalOk_plain n91 n93,
      port := ⟨port, portOf_plain port h58 h64 h91 hp⟩,
      undecided := undecided_plain ip n91 }
  rotate_left
  · intro c hm
    rcases mem_plainJoin hm with h1 | h1 | h1
    · exact quote_uriChars (fun _ => regNameSafe_uri) hk.wf c h1
    · subst h1; decide
    · exact uriChar_of_digit h1
  rotate_right
  · intro c hm
    rcases mem_plainJoin hm with h1 | h1 | h1
    · exact ⟨(hc c h1).1, (hc c h1).2.1⟩
    · subst h1; decide
    · have := isDigit_range h1
      simp only [isUnsafeWs, isNetlocDelim, Bool.or_eq_false_iff, beq_eq_false_iff_ne, ne_eq]
      omega
  · refine ⟨quote regNameSafe h, ?_, Or.inr ⟨?_, h, ?_, ?_⟩⟩
    · unfold hostnameOf
      simp only [rawHostname_plain port h58 h64 h91, hne, ↓reduceIte,
        lowerUntilPct_quote regNameSafe_37 hk.lower]
    · rw [head?_beq_false n91, ip4Looking_quote hk.notIp4]; rfl
    · simp [unquoteStrict, unquote_quote regNameSafe_37 hk.wf, hk.utf8]
    · rw [asciiLower_id hk.lower]

-- dotted quads ---------------------------------------------------------------------------

theorem netlocFacts_ip4 {ip : IpOracle} {t : Bytes} (ht : ip4Looking t = true) (port : Option Nat)
    (hp : ∀ p, port = some p → p ≤ 65535) : NetlocFacts ip (plainJoin t port) none := by
  have hc := ip4Looking_chars ht
  have hex : ∀ c, (isDigit c = false) → c ≠ 46 → c ∉ t := by
    intro c h1 h2 hm
    rcases hc c hm with h | h
    · rw [h1] at h; cases h
    · exact h2 h
  have h58 : 58 ∉ t := hex 58 (by decide) (by decide)
  have h64 : 64 ∉ t := hex 64 (by decide) (by decide)
  have h91 : 91 ∉ t := hex 91 (by decide) (by decide)
  have h93 : 93 ∉ t := hex 93 (by decide) (by decide)
  have n91 : 91 ∉ plainJoin t port := not_mem_plainJoin port h91 (by decide) (by decide)
  have n93 : 93 ∉ plainJoin t port := not_mem_plainJoin port h93 (by decide) (by decide)
  have hlow : lowerUntilPct t = t := by
    apply lowerUntilPct_id
    intro c hm
    rcases hc c hm with h | h
    · have := isDigit_range h; simp [isUpper]; omega
    · subst h; decide
  have huri : ∀ c ∈ plainJoin t port, isUriChar c = true := by
    intro c hm
    rcases mem_plainJoin hm with h1 | h1 | h1
    · rcases hc c h1 with h | h
      · exact uriChar_of_digit h
      · subst h; decide
    · subst h1; decide
    · exact uriChar_of_digit h1
  refine
    { clean := ?_, uriChars := huri, brackets := bracketsOk_plain ip n91 n93, hostname := ?_,
      userinfo := hasUserinfo_plain port h64, literal := literalOk_plain n91 n93,
      port := ⟨port, portOf_plain port h58 h64 h91 hp⟩,
      undecided := undecided_plain ip n91 }
  · intro c hm
    have hd : ∀ c, isDigit c = true → isNetlocDelim c = false ∧ isUnsafeWs c = false := by
      intro c h1
      have := isDigit_range h1
      simp only [isUnsafeWs, isNetlocDelim, Bool.or_eq_false_iff, beq_eq_false_iff_ne, ne_eq]
      omega
    rcases mem_plainJoin hm with h1 | h1 | h1
    · rcases hc c h1 with h | h
      · exact hd c h
      · subst h; decide
    · subst h1; decide
    · exact hd c h1
  · refine ⟨t, ?_, Or.inl ⟨?_, rfl⟩⟩
    · unfold hostnameOf
      simp only [rawHostname_plain port h58 h64 h91, ip4Looking_ne_nil ht, ↓reduceIte, hlow]
    · simp [ht]

-- bracketed IPv6 -------------------------------------------------------------------------

theorem mem_splitOn_cover {c b : Nat} {s : Bytes} (hb : b ∈ s) (hne : b ≠ c) :
    ∃ x ∈ splitOn c s, b ∈ x := by
  induction s with
  | nil => simp at hb
  | cons y s ih =>
    simp only [splitOn]
    by_cases hy : (y == c) = true
    · have hyc : y = c := by simpa using hy
      have hbs : b ∈ s := by
        simp only [List.mem_cons] at hb
        rcases hb with h | h
        · exact absurd (h.trans hyc) hne
        · exact h
      obtain ⟨x, hx, hbx⟩ := ih hbs
      exact ⟨x, by simp [hy, hx], hbx⟩
    · simp only [hy, Bool.false_eq_true, ↓reduceIte]
      cases hsp : splitOn c s with
      | nil => exact absurd hsp (splitOn_ne_nil c s)
      | cons hd tl =>
        simp only [List.mem_cons] at hb
        rcases hb with rfl | hb
        · exact ⟨b :: hd, by simp, by simp⟩
        · rw [hsp] at ih
          obtain ⟨x, hx, hbx⟩ := ih hb
          simp only [List.mem_cons] at hx
          rcases hx with rfl | hx
          · exact ⟨y :: x, by simp, by simp [hbx]⟩
          · exact ⟨x, by simp [hx], hbx⟩

theorem ip4Strict_false_of_colon {t : Bytes} (h : 58 ∈ t) : ip4Strict t = false := by
  by_cases hs : ip4Strict t = true
  · unfold ip4Strict at hs
    simp only [Bool.and_eq_true, List.all_eq_true] at hs
    obtain ⟨x, hx, h58⟩ := mem_splitOn_cover (c := 46) h (by decide)
    have := (hs.2 x hx).1.1.1.2
    simp only [allDigits, List.all_eq_true] at this
    have := this 58 h58
    simp [isDigit] at this
  · simpa using hs

theorem netlocFacts_ip6 {ip : IpOracle} {t : Bytes} (ht : Ip6Text ip t) (port : Option Nat)
    (hp : ∀ p, port = some p → p ≤ 65535) :
    NetlocFacts ip (plainJoin ([91] ++ t ++ [93]) port) none := by
  have h64 : 64 ∉ t := fun hm => (ht.clean 64 hm).2.2.1 rfl
  have h93 : 93 ∉ t := fun hm => (ht.clean 93 hm).2.1 rfl
  have h91 : 91 ∉ t := fun hm => (ht.clean 91 hm).1 rfl
  have hne : t ≠ [] := by intro e; have := ht.colon; rw [e] at this; cases this
  have hshape := bracket_shape (t := t) port
  have hrh := rawHostname_bracket port h64 h93
  have huri : ∀ c ∈ plainJoin ([91] ++ t ++ [93]) port, isUriChar c = true := by
    intro c hm
    rcases mem_plainJoin hm with h1 | h1 | h1
    · simp only [List.cons_append, List.nil_append, List.mem_cons,
        List.mem_append, List.not_mem_nil, or_false] at h1
      rcases h1 with rfl | h1 | rfl
      · decide
      · exact ht.uriChars c h1
      · decide
    · subst h1; decide
    · exact uriChar_of_digit h1
  refine
    { clean := ?_, uriChars := huri, brackets := ?_, hostname := ?_,
      userinfo := hasUserinfo_bracket port h64, literal := literalOk_bracket port h91 h93 ht.zone,
      port := ⟨port, portOf_bracket port h64 h93 hp⟩,
      undecided := ?_ }
  · intro c hm
    rcases mem_plainJoin hm with h1 | h1 | h1
    · simp only [List.cons_append, List.nil_append, List.mem_cons,
        List.mem_append, List.not_mem_nil, or_false] at h1
      rcases h1 with rfl | h1 | rfl
      · decide
      · exact ⟨(ht.clean c h1).2.2.2.1, (ht.clean c h1).2.2.2.2⟩
      · decide
    · subst h1; decide
    · have := isDigit_range h1
      simp only [isUnsafeWs, isNetlocDelim, Bool.or_eq_false_iff, beq_eq_false_iff_ne, ne_eq]
      omega
  · unfold bracketsOk
    rw [hshape]
    have c91 : (91 :: (t ++ 93 :: portSuffix port)).contains 91 = true := by simp
    have c93 : (91 :: (t ++ 93 :: portSuffix port)).contains 93 = true := by simp
    rw [c91, c93]
    simp only [bne_self_eq_false, Bool.false_eq_true, ↓reduceIte]
    have h2 : after 91 (91 :: (t ++ 93 :: portSuffix port)) = t ++ 93 :: portSuffix port :=
      after_append (a := []) _ (by simp)
    rw [h2, before_append _ h93]
    unfold bracketedOk
    cases t with
    | nil => exact absurd rfl hne
    | cons x r =>
      have hx : x ≠ 118 := by
        intro e; exact ht.notV (by simp [e])
      have : ip.norm6 (x :: r) = some (x :: r) := ht.fixed
      split
      · rename_i t' heq; simp only [List.cons.injEq] at heq; exact absurd heq.1 hx
      · simp [this]
  · refine ⟨t, ?_, Or.inl ⟨?_, rfl⟩⟩
    · unfold hostnameOf
      simp only [hrh, hne, ↓reduceIte, ht.lower]
    · rw [hshape]; simp
  · unfold undecidedHostinfo hostportsplit
    have c91 : (plainJoin ([91] ++ t ++ [93]) port).contains 91 = true := by rw [hshape]; simp
    rw [c91]
    simp only [↓reduceIte, portOf_bracket port h64 h93 hp]
    unfold hostnameOf
    simp only [hrh, hne, ↓reduceIte, ht.lower]
    unfold ipNormAny
    rw [ip4Strict_false_of_colon ht.colon]
    simp only [Bool.false_eq_true, ↓reduceIte, ht.fixed]
    rw [hostportjoin_bracket port ht.colon h91]

end Aiocoap.Uri
