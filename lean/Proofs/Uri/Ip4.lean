import Proofs.Uri.Netloc
/-!
# The IPv4-literal test of `set_request_uri` is RFC 3986's `IPv4address` (C16)

`decOctet` / `IsIPv4address` are written from the grammar of RFC 3986 §3.2.2,

    IPv4address = dec-octet "." dec-octet "." dec-octet "." dec-octet
    dec-octet   = DIGIT                 ; 0-9
                / %x31-39 DIGIT         ; 10-99
                / "1" 2DIGIT            ; 100-199
                / "2" %x30-34 DIGIT     ; 200-249
                / "25" %x30-35          ; 250-255

and share nothing with `ip4Looking` (the model of the code's test: three dots, digits and dots
only, every part `0 < len <= 3`, no leading zero, value `<= 255`).
-/
namespace Aiocoap.Uri

/-- RFC 3986 `dec-octet` -/
def decOctet : Bytes → Bool
  | [d] => isDigit d
  | [a, b] => (49 ≤ a && a ≤ 57) && isDigit b
  | [a, b, c] =>
    (a == 49 && isDigit b && isDigit c) ||
    (a == 50 && (48 ≤ b && b ≤ 52) && isDigit c) ||
    (a == 50 && b == 53 && (48 ≤ c && c ≤ 53))
  | _ => false

/-- RFC 3986 `IPv4address` -/
def IsIPv4address (h : Bytes) : Prop :=
  ∃ a b c d, decOctet a = true ∧ decOctet b = true ∧ decOctet c = true ∧ decOctet d = true ∧
    h = a ++ 46 :: (b ++ 46 :: (c ++ 46 :: d))

/-- the test the code applies to one dotted part -/
def partOk (x : Bytes) : Bool :=
  x != [] && x.length ≤ 3 && (x == [48] || x.head? != some 48) && decToNat x ≤ 255

theorem ip4Looking_eq (h : Bytes) : ip4Looking h =
    (h.count 46 == 3 && h.all (fun c => isDigit c || c == 46) && (splitOn 46 h).all partOk) := rfl

theorem decOctet_digits {x : Bytes} (h : decOctet x = true) : ∀ c ∈ x, isDigit c = true := by
  match x, h with
  | [d], h => intro c hc; simp at hc; subst hc; simpa [decOctet] using h
  | [a, b], h =>
    simp only [decOctet, Bool.and_eq_true, decide_eq_true_eq] at h
    intro c hc
    simp only [List.mem_cons, List.not_mem_nil, or_false] at hc
    rcases hc with rfl | rfl
    · simp only [isDigit, Bool.and_eq_true, decide_eq_true_eq]; omega
    · exact h.2
  | [a, b, c], h =>
    simp only [decOctet, Bool.or_eq_true, Bool.and_eq_true, beq_iff_eq, decide_eq_true_eq] at h
    intro x hx
    simp only [List.mem_cons, List.not_mem_nil, or_false] at hx
    simp only [isDigit, Bool.and_eq_true, decide_eq_true_eq] at h ⊢
    rcases hx with rfl | rfl | rfl <;> omega

theorem partOk_prop (x : Bytes) : partOk x = true ↔
    x ≠ [] ∧ x.length ≤ 3 ∧ (x = [48] ∨ x.head? ≠ some 48) ∧ decToNat x ≤ 255 := by
  simp only [partOk, Bool.and_eq_true, bne_iff_ne, ne_eq, decide_eq_true_eq, Bool.or_eq_true,
    beq_iff_eq, and_assoc]

theorem decToNat_1 (a : Nat) : decToNat [a] = a - 48 := by simp [decToNat]
theorem decToNat_2 (a b : Nat) : decToNat [a, b] = (a - 48) * 10 + (b - 48) := by simp [decToNat]
theorem decToNat_3 (a b c : Nat) :
    decToNat [a, b, c] = ((a - 48) * 10 + (b - 48)) * 10 + (c - 48) := by simp [decToNat]

/-- on digit strings the code's test of a part is the grammar's `dec-octet` -/
theorem partOk_iff_decOctet {x : Bytes} (hd : ∀ c ∈ x, isDigit c = true) :
    partOk x = true ↔ decOctet x = true := by
  rw [partOk_prop]
  match x, hd with
  | [], _ => simp [decOctet]
  | [a], hd =>
    have ha := isDigit_range (hd a (by simp))
    simp only [decOctet, hd a (by simp), iff_true, decToNat_1, List.length_cons, List.length_nil,
      List.head?_cons, List.cons.injEq, and_true, Option.some.injEq, ne_eq]
    refine ⟨by simp, by omega, by omega, by omega⟩
  | [a, b], hd =>
    have ha := isDigit_range (hd a (by simp))
    have hb := isDigit_range (hd b (by simp))
    simp only [decOctet, hd b (by simp), decToNat_2, List.length_cons, List.length_nil,
      List.head?_cons, List.cons.injEq, Option.some.injEq, ne_eq, Bool.and_true, Bool.and_eq_true,
      decide_eq_true_eq]
    constructor
    · rintro ⟨_, _, h3, _⟩
      have ha48 : a ≠ 48 := by
        intro e; subst e; simp at h3
      omega
    · intro h
      exact ⟨by simp, by omega, Or.inr (by omega), by omega⟩
  | [a, b, c], hd =>
    have ha := isDigit_range (hd a (by simp))
    have hb := isDigit_range (hd b (by simp))
    have hc := isDigit_range (hd c (by simp))
    simp only [decOctet, hd b (by simp), hd c (by simp), decToNat_3, List.length_cons,
      List.length_nil, List.head?_cons, List.cons.injEq, Option.some.injEq, ne_eq, Bool.and_true,
      Bool.and_eq_true, Bool.or_eq_true, beq_iff_eq, decide_eq_true_eq]
    constructor
    · rintro ⟨_, _, h3, h4⟩
      have ha48 : a ≠ 48 := by
        intro e; subst e; simp at h3
      omega
    · intro h
      exact ⟨by simp, by omega, Or.inr (by omega), by omega⟩
  | _ :: _ :: _ :: _ :: _, _ =>
    simp only [decOctet, List.length_cons, Bool.false_eq_true, iff_false, not_and]
    intro _ h
    omega

-- split / join -------------------------------------------------------------------------------

theorem length_splitOn (c : Nat) (s : Bytes) : (splitOn c s).length = s.count c + 1 := by
  induction s with
  | nil => rfl
  | cons y s ih =>
    simp only [splitOn]
    by_cases hy : (y == c) = true
    · have : y = c := by simpa using hy
      subst this
      simp [ih]
    · simp only [hy, Bool.false_eq_true, ↓reduceIte]
      have hne : y ≠ c := by simpa using hy
      cases hsp : splitOn c s with
      | nil => exact absurd hsp (splitOn_ne_nil c s)
      | cons hd tl =>
        rw [hsp] at ih
        simp only [List.length_cons] at ih ⊢
        rw [List.count_cons_of_ne hne]
        exact ih

theorem joinWith_splitOn (c : Nat) (s : Bytes) : joinWith c (splitOn c s) = s := by
  induction s with
  | nil => rfl
  | cons y s ih =>
    simp only [splitOn]
    by_cases hy : (y == c) = true
    · have : y = c := by simpa using hy
      subst this
      simp only [BEq.rfl, ↓reduceIte]
      cases hsp : splitOn y s with
      | nil => exact absurd hsp (splitOn_ne_nil y s)
      | cons hd tl =>
        rw [hsp] at ih
        simp only [joinWith, List.nil_append, ih]
    · simp only [hy, Bool.false_eq_true, ↓reduceIte]
      cases hsp : splitOn c s with
      | nil => exact absurd hsp (splitOn_ne_nil c s)
      | cons hd tl =>
        rw [hsp] at ih
        cases tl with
        | nil => simp only [joinWith] at ih ⊢; rw [ih]
        | cons t1 t2 => simp only [joinWith, List.cons_append] at ih ⊢; rw [ih]

/-- the IPv4-literal test of `set_request_uri` accepts exactly RFC 3986's `IPv4address` -/
theorem ip4Looking_iff (h : Bytes) : ip4Looking h = true ↔ IsIPv4address h := by
  rw [ip4Looking_eq]
  simp only [Bool.and_eq_true, beq_iff_eq, List.all_eq_true, Bool.or_eq_true]
  constructor
  · rintro ⟨⟨hcount, hchars⟩, hparts⟩
    have hlen := length_splitOn 46 h
    rw [hcount] at hlen
    have hjoin := joinWith_splitOn 46 h
    have hdig : ∀ x ∈ splitOn 46 h, ∀ c ∈ x, isDigit c = true := by
      intro x hx c hc
      rcases hchars c (mem_of_mem_splitOn hx hc) with h1 | h1
      · exact h1
      · exact absurd (h1 ▸ hc) (not_mem_of_mem_splitOn hx)
    match hsp : splitOn 46 h, hlen with
    | [a, b, c, d], _ =>
      rw [hsp] at hjoin hdig hparts
      refine ⟨a, b, c, d, ?_, ?_, ?_, ?_, ?_⟩
      · exact (partOk_iff_decOctet (hdig a (by simp))).mp (hparts a (by simp))
      · exact (partOk_iff_decOctet (hdig b (by simp))).mp (hparts b (by simp))
      · exact (partOk_iff_decOctet (hdig c (by simp))).mp (hparts c (by simp))
      · exact (partOk_iff_decOctet (hdig d (by simp))).mp (hparts d (by simp))
      · simpa [joinWith] using hjoin.symm
  · rintro ⟨a, b, c, d, ha, hb, hc, hd, rfl⟩
    have no46 : ∀ {x : Bytes}, decOctet x = true → 46 ∉ x := by
      intro x hx hm
      have := decOctet_digits hx 46 hm
      simp [isDigit] at this
    have hsp : splitOn 46 (a ++ 46 :: (b ++ 46 :: (c ++ 46 :: d))) = [a, b, c, d] := by
      rw [splitOn_append_sep _ (no46 ha), splitOn_append_sep _ (no46 hb),
        splitOn_append_sep _ (no46 hc), splitOn_of_not_mem (no46 hd)]
    have hlen := length_splitOn 46 (a ++ 46 :: (b ++ 46 :: (c ++ 46 :: d)))
    rw [hsp] at hlen
    refine ⟨⟨?_, ?_⟩, ?_⟩
    · simp only [List.length_cons, List.length_nil] at hlen
      omega
    · intro x hx
      simp only [List.mem_append, List.mem_cons] at hx
      rcases hx with h1 | rfl | h1 | rfl | h1 | rfl | h1
      · exact Or.inl (decOctet_digits ha x h1)
      · exact Or.inr rfl
      · exact Or.inl (decOctet_digits hb x h1)
      · exact Or.inr rfl
      · exact Or.inl (decOctet_digits hc x h1)
      · exact Or.inr rfl
      · exact Or.inl (decOctet_digits hd x h1)
    · rw [hsp]
      intro x hx
      simp only [List.mem_cons, List.not_mem_nil, or_false] at hx
      rcases hx with rfl | rfl | rfl | rfl
      · exact (partOk_iff_decOctet (decOctet_digits ha)).mpr ha
      · exact (partOk_iff_decOctet (decOctet_digits hb)).mpr hb
      · exact (partOk_iff_decOctet (decOctet_digits hc)).mpr hc
      · exact (partOk_iff_decOctet (decOctet_digits hd)).mpr hd

end Aiocoap.Uri
