import Proofs.Uri.Segments
import Proofs.Uri.NameHost
/-!
# options → URI → options (C16)

`NetlocFacts` collects what `set_request_uri` needs to know about an authority text; it is
established for the three canonical host forms (escaped reg-name, dotted quad, bracketed IPv6
text) and then drives one generic computation of `fromParsed`.
-/
namespace Aiocoap.Uri

-- well-formedness of canonical option sets -----------------------------------------------

/-- a canonical IPv6 text as `str(ipaddress.IPv6Address(..))` prints it: a fixed point of the
normaliser, containing a colon, hex digits / colons / dots before the zone identifier, lower-case
there, not starting with `v` — these are assumptions about the *oracle* (Python's `ipaddress` is
not modelled; the harness checks them on every address it sees) — and `zone`: the zone identifier
consists of unreserved characters.  That one is no assumption about `ipaddress` (which takes any
text for a zone): it is what `set_request_uri` and `_quote_host` check since the fixes. -/
structure Ip6Text (ip : IpOracle) (t : Bytes) : Prop where
  fixed : ip.norm6 t = some t
  colon : 58 ∈ t
  addr : ∀ c ∈ before 37 t, isHex c = true ∨ c = 58 ∨ c = 46
  zone : zoneOk t = true
  lower : lowerUntilPct t = t
  notV : t.head? ≠ some 118

/-- hence no bracket, `@`, authority delimiter or dropped white space anywhere in it -/
theorem Ip6Text.clean {ip : IpOracle} {t : Bytes} (h : Ip6Text ip t) :
    ∀ c ∈ t, c ≠ 91 ∧ c ≠ 93 ∧ c ≠ 64 ∧ isNetlocDelim c = false ∧ isUnsafeWs c = false := by
  intro c hc
  simp only [isNetlocDelim, isUnsafeWs, Bool.or_eq_false_iff, beq_eq_false_iff_ne, ne_eq]
  rcases mem_cases_pct hc with h1 | h1 | h1
  · have := addrChar_facts (h.addr c h1)
    omega
  · omega
  · have := unreserved_facts (zoneOk_iff.mp h.zone c h1)
    omega

/-- segment lists in scope: UTF-8 text, and not the degenerate `[""]` -/
def SegsOk (segs : List Bytes) : Prop := segs ≠ [[]] ∧ ∀ s ∈ segs, s.wf ∧ utf8Valid s = true

/-- a Uri-Host value as §6.4 produces it: non-empty UTF-8 text without upper-case ASCII letters
that does not spell an IP address.  (`notIp6` refers to the test `_quote_host` makes: an IPv6 text
whose zone identifier is not unreserved *is* a name, e.g. `fe80::1%a?b`.) -/
structure NameOk (ip : IpOracle) (h : Bytes) : Prop where
  ne : h ≠ []
  wf : h.wf
  utf8 : utf8Valid h = true
  lower : ∀ c ∈ h, isUpper c = false
  notIp4 : ip4Looking h = false
  notIp6 : passesAsAddress ip h = false

def HostOk (ip : IpOracle) : Host → Prop
  | .name h => NameOk ip h
  | .ip4 t => ip4Looking t = true
  | .ip6 t => Ip6Text ip t

structure Resource.WF (ip : IpOracle) (r : Resource) : Prop where
  scheme : r.scheme ∈ coapSchemes
  host : HostOk ip r.host
  port : ∀ p, r.port = some p → p ≤ 65535
  path : SegsOk r.path
  query : SegsOk r.query

-- schemes --------------------------------------------------------------------------------

theorem coapScheme_clean {s : Bytes} (h : s ∈ coapSchemes) :
    (∃ c r, s = c :: r ∧ isAlpha c = true) ∧ ∀ c ∈ s, isSchemeChar c = true ∧ isUpper c = false := by
  simp only [coapSchemes, List.mem_cons, List.not_mem_nil, or_false] at h
  rcases h with rfl | rfl | rfl | rfl | rfl | rfl <;>
    exact ⟨⟨_, _, rfl, by decide⟩, by decide⟩

theorem coapScheme_ne_nil {s : Bytes} (h : s ∈ coapSchemes) : s ≠ [] := by
  obtain ⟨⟨c, r, rfl, _⟩, _⟩ := coapScheme_clean h
  simp

-- URI characters ----------------------------------------------------------------------------

/-- RFC 3986 §2: what a URI is made of — unreserved, sub-delims, the gen-delims `: / ? # [ ] @`,
and the `%` of pct-encoded -/
def isUriChar (c : Nat) : Bool :=
  isUnreserved c || isSubDelim c || c == 58 || c == 47 || c == 63 || c == 35 || c == 91 ||
    c == 93 || c == 64 || c == 37

/-- URI characters are ASCII -/
theorem uriChar_ascii {c : Nat} (h : isUriChar c = true) : c < 128 := by
  simp only [isUriChar, isUnreserved, isSubDelim, isAlpha, isUpper, isLower, isDigit,
    Bool.or_eq_true, Bool.and_eq_true, decide_eq_true_eq, beq_iff_eq] at h
  omega

theorem uriChar_of_unreserved {c : Nat} (h : isUnreserved c = true) : isUriChar c = true := by
  simp [isUriChar, h]

theorem uriChar_of_digit {c : Nat} (h : isDigit c = true) : isUriChar c = true :=
  uriChar_of_unreserved (by simp [isUnreserved, h])

theorem uriChar_of_hex {c : Nat} (h : isHex c = true) : isUriChar c = true := by
  apply uriChar_of_unreserved
  simp only [isHex, isDigit, Bool.or_eq_true, Bool.and_eq_true, decide_eq_true_eq] at h
  simp only [isUnreserved, isAlpha, isUpper, isLower, isDigit, Bool.or_eq_true, Bool.and_eq_true,
    decide_eq_true_eq, beq_iff_eq]
  omega

theorem uriChar_of_addrChar {c : Nat} (h : isHex c = true ∨ c = 58 ∨ c = 46) : isUriChar c = true := by
  rcases h with h | rfl | rfl
  · exact uriChar_of_hex h
  · decide
  · decide

theorem uriChar_of_schemeChar {c : Nat} (h : isSchemeChar c = true) : isUriChar c = true := by
  simp only [isSchemeChar, Bool.or_eq_true, beq_iff_eq] at h
  rcases h with (((h | h) | rfl) | rfl) | rfl
  · exact uriChar_of_unreserved (by simp [isUnreserved, h])
  · exact uriChar_of_digit h
  · decide
  · decide
  · decide

theorem quote_uriChars {S : Nat → Bool} (hS : ∀ c, S c = true → isUriChar c = true) {s : Bytes}
    (hs : s.wf) : ∀ c ∈ quote S s, isUriChar c = true := by
  intro c hc
  rcases quote_mem hs hc with h | rfl | h | h
  · exact hS c h
  · decide
  · exact uriChar_of_digit (by simp [isDigit, h.1, h.2])
  · exact uriChar_of_hex (by simp [isHex, h.1, h.2])

theorem pathSafe_uri {c : Nat} (h : pathSafe c = true) : isUriChar c = true := by
  simp only [pathSafe, Bool.or_eq_true, beq_iff_eq] at h
  rcases h with ((h | h) | rfl) | rfl
  · simp [isUriChar, h]
  · simp [isUriChar, h]
  · decide
  · decide

theorem querySafe_uri {c : Nat} (h : querySafe c = true) : isUriChar c = true := by
  simp only [querySafe, Bool.or_eq_true, Bool.and_eq_true, beq_iff_eq] at h
  rcases h with ((((h | h) | rfl) | rfl) | rfl) | rfl
  · simp [isUriChar, h]
  · simp [isUriChar, h.1]
  · decide
  · decide
  · decide
  · decide

theorem regNameSafe_uri {c : Nat} (h : regNameSafe c = true) : isUriChar c = true := by
  simp only [regNameSafe, Bool.or_eq_true] at h
  rcases h with h | h
  · simp [isUriChar, h]
  · simp [isUriChar, h]

theorem encodePath_uriChars {segs : List Bytes} (h : ∀ s ∈ segs, s.wf) :
    ∀ c ∈ encodePath segs, isUriChar c = true := by
  intro c hc
  cases segs with
  | nil =>
    simp only [encodePath, List.mem_singleton] at hc
    subst hc; decide
  | cons s t =>
    simp only [encodePath, List.mem_flatMap, List.mem_cons] at hc
    obtain ⟨seg, hseg, hc⟩ := hc
    rcases hc with rfl | hc
    · decide
    · exact quote_uriChars (fun _ => pathSafe_uri) (h seg (by simpa using hseg)) c hc

theorem encodeQuery_uriChars {segs : List Bytes} (h : ∀ s ∈ segs, s.wf) :
    ∀ c ∈ encodeQuery segs, isUriChar c = true := by
  intro c hc
  rcases mem_joinWith hc with rfl | ⟨s, hs, hcs⟩
  · decide
  · simp only [List.mem_map] at hs
    obtain ⟨seg, hseg, rfl⟩ := hs
    exact quote_uriChars (fun _ => querySafe_uri) (h seg hseg) c hcs

/-- a URI composed of a CoAP scheme, an authority of URI characters and encoded segment lists
consists of URI characters -/
theorem render_uriChars {s n : Bytes} {path query : List Bytes} (hs : s ∈ coapSchemes)
    (hn : ∀ c ∈ n, isUriChar c = true) (hp : SegsOk path) (hq : SegsOk query) :
    ∀ c ∈ render s n (encodePath path) (encodeQuery query), isUriChar c = true := by
  intro c hc
  rw [render_eq (coapScheme_ne_nil hs)] at hc
  simp only [List.mem_append, List.mem_cons] at hc
  rcases hc with h | rfl | rfl | rfl | h | h | h
  · exact uriChar_of_schemeChar ((coapScheme_clean hs).2 c h).1
  · decide
  · decide
  · decide
  · exact hn c h
  · exact encodePath_uriChars (fun x hx => (hp.2 x hx).1) c h
  · rcases mem_queryPart h with rfl | h
    · decide
    · exact encodeQuery_uriChars (fun x hx => (hq.2 x hx).1) c h

/-- ... and URI characters only -/
theorem Ip6Text.uriChars {ip : IpOracle} {t : Bytes} (h : Ip6Text ip t) :
    ∀ c ∈ t, isUriChar c = true := by
  intro c hc
  rcases mem_cases_pct hc with h1 | h1 | h1
  · exact uriChar_of_addrChar (h.addr c h1)
  · subst h1; decide
  · exact uriChar_of_unreserved (zoneOk_iff.mp h.zone c h1)

-- what set_request_uri needs to know about a netloc --------------------------------------

/-- `n` is an authority text that `set_request_uri` takes, `n'` the `hostinfo` of the remote it
builds from it (`n` itself, unless `n` holds an IPv6 literal that is not written canonically) -/
structure NetlocFactsTo (ip : IpOracle) (n n' : Bytes) (uriHost : Option Bytes) : Prop where
  clean : ∀ c ∈ n, isNetlocDelim c = false ∧ isUnsafeWs c = false
  uriChars : ∀ c ∈ n, isUriChar c = true
  brackets : bracketsOk ip n = true
  hostname : ∃ hn, hostnameOf n = some hn ∧
    ((n.head? == some 91 || ip4Looking hn) = true ∧ uriHost = none ∨
     (n.head? == some 91 || ip4Looking hn) = false ∧
        ∃ h, unquoteStrict hn = some h ∧ uriHost = some (asciiLower h))
  userinfo : hasUserinfo n = false
  literal : literalOk n = true
  port : ∃ p, portOf n = some p
  undecided : undecidedHostinfo ip n = some n'

/-- the canonical authorities: the remote keeps the text as it is -/
abbrev NetlocFacts (ip : IpOracle) (n : Bytes) (uriHost : Option Bytes) : Prop :=
  NetlocFactsTo ip n n uriHost

theorem fromParsed_of_facts {ip : IpOracle} {s n n' : Bytes} {uriHost : Option Bytes}
    {path query : List Bytes} (hs : s ∈ coapSchemes) (hn : NetlocFactsTo ip n n' uriHost)
    (hp : SegsOk path) (hq : SegsOk query) :
    fromParsed ip { scheme := s, netloc := n, path := encodePath path, query := encodeQuery query,
                    fragment := [] }
      = .ok { scheme := s, hostinfo := n', uriHost := uriHost, uriPort := none,
              path := path, query := query } := by
  obtain ⟨hn', hhn, hlit⟩ := hn.hostname
  obtain ⟨p, hport⟩ := hn.port
  unfold fromParsed
  have hsc : coapSchemes.contains s = true := by simpa using hs
  simp only [↓reduceIte, coapScheme_ne_nil hs, hsc, Bool.not_true,
    Bool.false_eq_true, hhn, hn.userinfo, hn.literal, decodePath_encodePath hp.1 hp.2,
    decodeQuery_encodeQuery hq.1 hq.2, hport, hn.undecided]
  rcases hlit with ⟨h1, h2⟩ | ⟨h1, h, h2, h3⟩
  · rw [if_pos h1, h2]
  · rw [if_neg (by simp [h1])]
    -- the option value is computed from the netloc text, the facts speak of `.hostname`
    have hhead : (n.head? == some 91) = false := by
      simp only [Bool.or_eq_false_iff] at h1; exact h1.1
    have hb := uriHost_bridge hhn hn.userinfo hn.literal hhead
    rw [h2] at hb
    cases hq' : unquoteStrict (before 58 n) with
    | none => rw [hq'] at hb; cases hb
    | some h' =>
      rw [hq'] at hb
      simp only [Option.map_some, Option.some.injEq] at hb
      simp only [hb, h3]

/-- composing from clean parts and parsing again -/
theorem setRequestUri_render {ip : IpOracle} {s n n' : Bytes} {uriHost : Option Bytes}
    {path query : List Bytes} (hs : s ∈ coapSchemes) (hn : NetlocFactsTo ip n n' uriHost)
    (hp : SegsOk path) (hq : SegsOk query) :
    setRequestUri ip (render s n (encodePath path) (encodeQuery query))
      = .ok { scheme := s, hostinfo := n', uriHost := uriHost, uriPort := none,
              path := path, query := query } := by
  have hclean : CleanParts s n (encodePath path) (encodeQuery query) :=
    { scheme_head := (coapScheme_clean hs).1
      scheme_chars := (coapScheme_clean hs).2
      netloc := hn.clean
      path_head := (encodePath_clean (fun x hx => (hp.2 x hx).1)).1
      path := (encodePath_clean (fun x hx => (hp.2 x hx).1)).2
      query := encodeQuery_clean (fun x hx => (hq.2 x hx).1) }
  unfold setRequestUri
  have hk : nfkcBad n = false :=
    nfkcBad_ascii (fun c hc => uriChar_ascii (hn.uriChars c hc))
  rw [urlsplit_render ip hclean, if_pos (by simp [hn.brackets, hk])]
  simp only [contains_false_of_not_mem (render_no_hash hclean), Bool.false_eq_true, ↓reduceIte]
  exact fromParsed_of_facts hs hn hp hq

end Aiocoap.Uri
