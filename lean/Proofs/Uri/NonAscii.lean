import Proofs.Uri.IpText
/-! A host with a non-ASCII character is a registered name (C16): neither the IPv4-literal test
nor a bracketed literal that `ipaddress` takes can hold a byte ≥ 128. -/
namespace Aiocoap.Uri

theorem addrChar_ascii {c : Nat} (h : isHex c = true ∨ c = 58 ∨ c = 46) : c < 128 := by
  simp only [isHex, isDigit, Bool.or_eq_true, Bool.and_eq_true, decide_eq_true_eq] at h
  omega

theorem unreserved_ascii {c : Nat} (h : isUnreserved c = true) : c < 128 := by
  simp only [isUnreserved, isAlpha, isUpper, isLower, isDigit, Bool.or_eq_true, Bool.and_eq_true,
    decide_eq_true_eq, beq_iff_eq] at h
  omega

theorem digitDot_ascii {c : Nat} (h : isDigit c = true ∨ c = 46) : c < 128 := by
  simp only [isDigit, Bool.and_eq_true, decide_eq_true_eq] at h
  omega

theorem not_upper_of_high {c : Nat} (h : 128 ≤ c) : isUpper c = false := by
  simp only [isUpper, Bool.and_eq_false_iff, decide_eq_false_iff_not]
  omega

/-- every accepted text whose host holds a non-ASCII byte carries a Uri-Host option -/
theorem nonascii_host_is_name {ip : IpOracle} (laws : IpLaws ip) {u : Bytes} {o : Opts}
    (hok : setRequestUri ip u = .ok o) {p : Parsed} (hsplit : urlsplit ip u = some p)
    {c : Nat} (hc : c ∈ rawHostname p.netloc) (h128 : 128 ≤ c) : o.uriHost ≠ none := by
  obtain ⟨p', hsplit', A⟩ := setRequestUri_ok_inv hok
  rw [hsplit] at hsplit'
  cases hsplit'
  obtain ⟨hn, hhn, hcase⟩ := A.host
  obtain ⟨_, hhneq⟩ := hostnameOf_inv hhn
  have hcn : c ∈ hn := by
    rw [hhneq]; exact mem_lowerUntilPct_of_mem hc (not_upper_of_high h128)
  rcases hcase with ⟨hlit, _⟩ | ⟨_, h, _, hsome⟩
  · exfalso
    simp only [Bool.or_eq_true, beq_iff_eq] at hlit
    rcases hlit with hhead | h4
    · -- a bracketed literal: the remote was built from what `ipaddress` made of it
      have h91 : 91 ∈ p.netloc := by
        cases hnl : p.netloc with
        | nil => rw [hnl] at hhead; cases hhead
        | cons x r =>
          rw [hnl] at hhead
          simp only [List.head?_cons, Option.some.injEq] at hhead
          subst hhead; simp
      obtain ⟨port, hport⟩ := A.port
      have hund := A.hostinfo
      unfold undecidedHostinfo at hund
      rw [contains_true_of_mem h91] at hund
      simp only [↓reduceIte, hostportsplit, hport, hhn] at hund
      cases hnorm : ipNormAny ip hn with
      | none => rw [hnorm] at hund; cases hund
      | some y =>
        unfold ipNormAny at hnorm
        by_cases h4 : ip4Strict hn = true
        · have := digitDot_ascii (ip4Strict_chars h4 c hcn)
          omega
        · rw [if_neg h4] at hnorm
          -- the zone identifier of the literal is unreserved
          obtain ⟨r, hnr, _, hz, _⟩ := literalOk_inv A.literal h91
          have hui := A.userinfo
          rw [hnr] at hui
          have h64 : 64 ∉ 91 :: r := no_at_of_bracket_head hui
          have hraw : rawHostname p.netloc = before 93 r := by
            rw [hnr]; exact rawHostname_bracket_head h64
          rcases mem_cases_pct hcn with hb | hb | hb
          · have := addrChar_ascii (laws.addrIn _ _ hnorm c hb)
            omega
          · omega
          · rw [hhneq, after_lowerUntilPct, hraw] at hb
            have := unreserved_ascii (zoneOk_iff.mp hz c hb)
            omega
    · have := digitDot_ascii (ip4Looking_chars h4 c hcn)
      omega
  · rw [hsome]; exact fun h => nomatch h

end Aiocoap.Uri
