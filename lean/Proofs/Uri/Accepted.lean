import Proofs.Uri.Resource
import Proofs.Uri.Utf8
/-! What is known about a text that `set_request_uri` accepted (C16). -/
namespace Aiocoap.Uri

/-- everything `fromParsed … = ok o` tells about `p` and `o` -/
structure AcceptedFacts (ip : IpOracle) (p : Parsed) (o : Opts) : Prop where
  scheme : p.scheme ∈ coapSchemes
  oscheme : o.scheme = p.scheme
  userinfo : hasUserinfo p.netloc = false
  literal : literalOk p.netloc = true
  path : decodePath p.path = some o.path
  query : decodeQuery p.query = some o.query
  port : ∃ port, portOf p.netloc = some port
  hostinfo : undecidedHostinfo ip p.netloc = some o.hostinfo
  uriPort : o.uriPort = none
  host : ∃ hn, hostnameOf p.netloc = some hn ∧
    ((p.netloc.head? == some 91 || ip4Looking hn) = true ∧ o.uriHost = none ∨
     (p.netloc.head? == some 91 || ip4Looking hn) = false ∧
        ∃ h, unquoteStrict hn = some h ∧ o.uriHost = some (asciiLower h))

theorem fromParsed_ok_inv {ip : IpOracle} {p : Parsed} {o : Opts} (h : fromParsed ip p = .ok o) :
    AcceptedFacts ip p o := by
  unfold fromParsed at h
  by_cases hs : p.scheme = []
  · simp [hs] at h
  · simp only [hs, ↓reduceIte] at h
    by_cases hc : p.scheme ∈ coapSchemes
    · have hc' : coapSchemes.contains p.scheme = true := by simpa using hc
      simp only [hc', Bool.not_true, Bool.false_eq_true, ↓reduceIte] at h
      cases hhn : hostnameOf p.netloc with
      | none => simp [hhn] at h
      | some hn =>
        simp only [hhn] at h
        by_cases hu : hasUserinfo p.netloc = true
        · simp [hu] at h
        · simp only [hu, Bool.false_eq_true, ↓reduceIte] at h
          by_cases hlo : literalOk p.netloc = true
          · simp only [hlo, Bool.not_true, Bool.false_eq_true, ↓reduceIte] at h
            cases hpath : decodePath p.path with
            | none => simp [hpath] at h
            | some path =>
              cases hquery : decodeQuery p.query with
              | none => simp [hpath, hquery] at h
              | some query =>
                simp only [hpath, hquery] at h
                cases hport : portOf p.netloc with
                | none => simp [hport] at h
                | some port =>
                  simp only [hport] at h
                  cases hund : undecidedHostinfo ip p.netloc with
                  | none => simp [hund] at h
                  | some hostinfo =>
                    simp only [hund] at h
                    by_cases hlit : (p.netloc.head? == some 91 || ip4Looking hn) = true
                    · rw [if_pos hlit] at h
                      injection h with h; subst h
                      exact ⟨hc, rfl, by simpa using hu, hlo, hpath, hquery, ⟨port, hport⟩, hund,
                        rfl, hn, hhn, Or.inl ⟨hlit, rfl⟩⟩
                    · rw [if_neg hlit] at h
                      have hlit' : (p.netloc.head? == some 91 || ip4Looking hn) = false := by
                        simpa using hlit
                      have hhead : (p.netloc.head? == some 91) = false := by
                        simp only [Bool.or_eq_false_iff] at hlit'; exact hlit'.1
                      -- the code decodes the netloc text; restate it in terms of `.hostname`
                      have hb := uriHost_bridge hhn (by simpa using hu) hlo hhead
                      cases hq : unquoteStrict (before 58 p.netloc) with
                      | none => simp [hq] at h
                      | some hh =>
                        simp only [hq] at h
                        injection h with h; subst h
                        rw [hq] at hb
                        cases hq2 : unquoteStrict hn with
                        | none => rw [hq2] at hb; cases hb
                        | some h2 =>
                          rw [hq2] at hb
                          simp only [Option.map_some, Option.some.injEq] at hb
                          exact ⟨hc, rfl, by simpa using hu, hlo, hpath, hquery, ⟨port, hport⟩,
                            hund, rfl, hn, hhn, Or.inr ⟨hlit', h2, hq2, by rw [hb]⟩⟩
          · simp [hlo] at h
    · simp [hc] at h

theorem setRequestUri_ok_inv {ip : IpOracle} {u : Bytes} {o : Opts}
    (h : setRequestUri ip u = .ok o) : ∃ p, urlsplit ip u = some p ∧ AcceptedFacts ip p o := by
  unfold setRequestUri at h
  cases hsplit : urlsplit ip u with
  | none => rw [hsplit] at h; cases h
  | some p =>
    rw [hsplit] at h
    simp only at h
    split at h
    · cases h
    · exact ⟨p, rfl, fromParsed_ok_inv h⟩

/-- an accepted text contains no `#` -/
theorem setRequestUri_ok_nohash {ip : IpOracle} {u : Bytes} {o : Opts}
    (h : setRequestUri ip u = .ok o) : 35 ∉ u := by
  unfold setRequestUri at h
  cases hsplit : urlsplit ip u with
  | none => rw [hsplit] at h; cases h
  | some p =>
    rw [hsplit] at h
    simp only at h
    split at h
    · cases h
    · rename_i hc
      intro hm
      exact hc (contains_true_of_mem hm)

-- facts about what urlsplit hands out ------------------------------------------------------

theorem mem_sanitise {u : Bytes} {c : Nat} (h : c ∈ sanitise u) : c ∈ u ∧ isUnsafeWs c = false := by
  unfold sanitise at h
  have := List.mem_filter.mp h
  exact ⟨(List.dropWhile_suffix _).subset this.1, by simpa using this.2⟩

theorem mem_splitScheme_rest {u : Bytes} {c : Nat} (h : c ∈ (splitScheme u).2) : c ∈ u := by
  unfold splitScheme at h
  by_cases hc : schemeOk u = true
  · rw [if_pos hc] at h; exact mem_after h
  · rw [if_neg hc] at h; exact h

/-- shape of the authority split -/
theorem splitAuthority_cases (u : Bytes) :
    (∃ body, (splitScheme (sanitise u)).2 = 47 :: 47 :: body ∧
        (splitAuthority u).2.1 = takeUntil isNetlocDelim body ∧
        (splitAuthority u).2.2 = dropUntil isNetlocDelim body) ∨
    ((splitAuthority u).2.1 = [] ∧ (splitAuthority u).2.2 = (splitScheme (sanitise u)).2) := by
  unfold splitAuthority
  simp only
  split
  · rename_i body heq
    exact Or.inl ⟨body, heq, rfl, rfl⟩
  · exact Or.inr ⟨rfl, rfl⟩

theorem mem_netloc {u : Bytes} {c : Nat} (h : c ∈ (splitAuthority u).2.1) :
    c ∈ u ∧ isNetlocDelim c = false ∧ isUnsafeWs c = false := by
  rcases splitAuthority_cases u with ⟨body, hb, hn, _⟩ | ⟨hn, _⟩
  · rw [hn] at h
    have h1 := mem_takeUntil h
    have h2 : c ∈ (splitScheme (sanitise u)).2 := by rw [hb]; simp [h1.1]
    have h3 := mem_sanitise (mem_splitScheme_rest h2)
    exact ⟨h3.1, h1.2, h3.2⟩
  · rw [hn] at h; cases h

theorem mem_rest {u : Bytes} {c : Nat} (h : c ∈ (splitAuthority u).2.2) : c ∈ u := by
  rcases splitAuthority_cases u with ⟨body, hb, _, hr⟩ | ⟨_, hr⟩
  · rw [hr] at h
    have h2 : c ∈ (splitScheme (sanitise u)).2 := by rw [hb]; simp [mem_dropUntil h]
    exact (mem_sanitise (mem_splitScheme_rest h2)).1
  · rw [hr] at h
    exact (mem_sanitise (mem_splitScheme_rest h)).1

/-- after a non-empty authority the path is empty or starts with a slash -/
theorem path_shape {u : Bytes} (hne : (splitAuthority u).2.1 ≠ []) :
    before 63 (before 35 (splitAuthority u).2.2) = [] ∨
      ∃ r, before 63 (before 35 (splitAuthority u).2.2) = 47 :: r := by
  rcases splitAuthority_cases u with ⟨body, _, _, hr⟩ | ⟨hn, _⟩
  · rw [hr]
    cases hd : dropUntil isNetlocDelim body with
    | nil => left; rfl
    | cons d r =>
      have := dropUntil_head hd
      simp only [isNetlocDelim, Bool.or_eq_true, beq_iff_eq] at this
      rcases this with (rfl | rfl) | rfl
      · right; exact ⟨_, by simp [before, takeUntil]; rfl⟩
      · left; simp [before, takeUntil]
      · left; simp [before, takeUntil]
  · exact absurd hn hne

structure SplitFacts (ip : IpOracle) (u : Bytes) (p : Parsed) : Prop where
  brackets : bracketsOk ip p.netloc = true
  netloc : ∀ c ∈ p.netloc, c ∈ u ∧ isNetlocDelim c = false ∧ isUnsafeWs c = false
  path_mem : ∀ c ∈ p.path, c ∈ u
  query_mem : ∀ c ∈ p.query, c ∈ u
  path : p.netloc ≠ [] → p.path = [] ∨ ∃ r, p.path = 47 :: r
  netloc_eq : p.netloc = (splitAuthority u).2.1
  scheme_eq : p.scheme = (splitAuthority u).1
  nfkc : nfkcBad p.netloc = false
  fragment : 35 ∉ u → p.fragment = []

theorem urlsplit_facts {ip : IpOracle} {u : Bytes} {p : Parsed} (h : urlsplit ip u = some p) :
    SplitFacts ip u p := by
  unfold urlsplit at h
  by_cases hb : bracketsOk ip (splitAuthority u).2.1 = true
  · by_cases hk : nfkcBad (splitAuthority u).2.1 = true
    · simp [hb, hk] at h
    · simp only [hb, hk, Bool.not_true, Bool.false_eq_true, ↓reduceIte, Option.some.injEq] at h
      subst h
      exact
        { brackets := hb
          netloc := fun c hc => mem_netloc hc
          path_mem := fun c hc => mem_rest (mem_before (mem_before hc).1).1
          query_mem := fun c hc => mem_rest (mem_before (mem_after hc)).1
          path := fun hne => path_shape hne
          netloc_eq := rfl
          scheme_eq := rfl
          nfkc := by simpa using hk
          fragment := fun h35 => after_of_not_mem (fun hm => h35 (mem_rest hm)) }
  · simp [hb] at h

-- decoded segment lists are in scope -------------------------------------------------------

theorem unquote_eq_nil {s : Bytes} (h : unquote s = []) : s = [] := by
  cases s with
  | nil => rfl
  | cons c r =>
    rw [unquote.eq_def] at h
    simp only at h
    split at h
    · split at h
      · split at h <;> cases h
      · cases h
      · cases h
    · cases h

theorem decodeSegs_inv {l segs : List Bytes} (h : decodeSegs l = some segs) :
    segs = l.map unquote ∧ ∀ x ∈ l, utf8Valid (unquote x) = true := by
  induction l generalizing segs with
  | nil => simp [decodeSegs] at h; subst h; simp
  | cons x t ih =>
    simp only [decodeSegs, unquoteStrict] at h
    by_cases hv : utf8Valid (unquote x) = true
    · simp only [hv, ↓reduceIte] at h
      cases ht : decodeSegs t with
      | none => simp [ht] at h
      | some b =>
        simp only [ht, Option.some.injEq] at h
        subst h
        obtain ⟨h1, h2⟩ := ih ht
        refine ⟨by simp [h1], ?_⟩
        intro y hy
        simp only [List.mem_cons] at hy
        rcases hy with rfl | hy
        · exact hv
        · exact h2 y hy
    · simp [hv] at h

theorem splitOn_eq_singleton_nil {c : Nat} {s : Bytes} (h : splitOn c s = [[]]) : s = [] := by
  cases s with
  | nil => rfl
  | cons y s =>
    simp only [splitOn] at h
    by_cases hy : (y == c) = true
    · simp only [hy, ↓reduceIte, List.cons.injEq, true_and] at h
      exact absurd h (splitOn_ne_nil c s)
    · simp only [hy, Bool.false_eq_true, ↓reduceIte] at h
      cases hsp : splitOn c s with
      | nil => exact absurd hsp (splitOn_ne_nil c s)
      | cons hd tl => rw [hsp] at h; simp at h

theorem segsOk_of_decode {l segs : List Bytes} (h : decodeSegs l = some segs)
    (hwf : ∀ x ∈ l, x.wf) (hne : l ≠ [[]]) : SegsOk segs := by
  obtain ⟨h1, h2⟩ := decodeSegs_inv h
  subst h1
  constructor
  · intro he
    cases l with
    | nil => simp at he
    | cons x t =>
      simp only [List.map_cons, List.cons.injEq, List.map_eq_nil_iff] at he
      have := unquote_eq_nil he.1
      exact hne (by rw [this, he.2])
  · intro s hs
    simp only [List.mem_map] at hs
    obtain ⟨x, hx, rfl⟩ := hs
    exact ⟨unquote_wf (hwf x hx), h2 x hx⟩

theorem segsOk_path {p : Bytes} {segs : List Bytes} (hwf : p.wf)
    (hshape : p = [] ∨ ∃ r, p = 47 :: r) (h : decodePath p = some segs) : SegsOk segs := by
  unfold decodePath at h
  by_cases hp : p = [] ∨ p = [47]
  · rw [if_pos hp] at h
    injection h with h; subst h
    exact ⟨by simp, by simp⟩
  · rw [if_neg hp] at h
    rcases hshape with rfl | ⟨r, rfl⟩
    · exact absurd (Or.inl rfl) hp
    · have hsp : splitOn 47 (47 :: r) = [] :: splitOn 47 r := by simp [splitOn]
      rw [hsp] at h
      simp only [List.drop_succ_cons, List.drop_zero] at h
      refine segsOk_of_decode h ?_ ?_
      · intro x hx c hc
        exact hwf c (by simp [mem_of_mem_splitOn hx hc])
      · intro he
        have := splitOn_eq_singleton_nil he
        subst this
        exact hp (Or.inr rfl)

theorem segsOk_query {q : Bytes} {segs : List Bytes} (hwf : q.wf)
    (h : decodeQuery q = some segs) : SegsOk segs := by
  unfold decodeQuery at h
  by_cases hq : q = []
  · rw [if_pos hq] at h
    injection h with h; subst h
    exact ⟨by simp, by simp⟩
  · rw [if_neg hq] at h
    refine segsOk_of_decode h ?_ ?_
    · intro x hx c hc
      exact hwf c (mem_of_mem_splitOn hx hc)
    · intro he
      exact hq (splitOn_eq_singleton_nil he)

-- host name pieces --------------------------------------------------------------------------

theorem mem_lowerUntilPct {s : Bytes} {c : Nat} (h : c ∈ lowerUntilPct s) :
    ∃ c0 ∈ s, c = c0 ∨ (isUpper c0 = true ∧ c = c0 + 32) := by
  induction s with
  | nil => simp [lowerUntilPct] at h
  | cons x r ih =>
    simp only [lowerUntilPct] at h
    split at h
    · exact ⟨c, h, Or.inl rfl⟩
    · simp only [List.mem_cons] at h
      rcases h with rfl | h
      · refine ⟨x, by simp, ?_⟩
        unfold lowerChar
        by_cases hu : isUpper x = true
        · right; simp [hu]
        · left; simp [hu]
      · obtain ⟨c0, hc0, hh⟩ := ih h
        exact ⟨c0, by simp [hc0], hh⟩

theorem mem_rawHostname {n : Bytes} {c : Nat} (h : c ∈ rawHostname n) : c ∈ n := by
  unfold rawHostname at h
  simp only at h
  split at h
  · exact mem_afterLast (mem_after (mem_before h).1)
  · exact mem_afterLast (mem_before h).1

theorem hostnameOf_inv {n hn : Bytes} (h : hostnameOf n = some hn) :
    rawHostname n ≠ [] ∧ hn = lowerUntilPct (rawHostname n) := by
  unfold hostnameOf at h
  simp only at h
  split at h
  · cases h
  · rename_i hne
    injection h with h
    exact ⟨hne, h.symm⟩

theorem portOf_le {n : Bytes} {p : Nat} (h : portOf n = some (some p)) : p ≤ 65535 := by
  unfold portOf at h
  simp only at h
  split at h
  · cases h
  · split at h
    · rename_i hc
      injection h with h; injection h with h
      simp only [Bool.and_eq_true, decide_eq_true_eq] at hc
      omega
    · cases h

theorem asciiLower_wf {s : Bytes} (h : s.wf) : (asciiLower s).wf := by
  intro c hc
  simp only [asciiLower, List.mem_map] at hc
  obtain ⟨x, hx, rfl⟩ := hc
  have := h x hx
  unfold lowerChar
  split
  · rename_i hu
    simp only [isUpper, Bool.and_eq_true, decide_eq_true_eq] at hu
    omega
  · exact this

theorem lowerUntilPct_wf {s : Bytes} (h : s.wf) : (lowerUntilPct s).wf := by
  intro c hc
  obtain ⟨c0, hc0, hh⟩ := mem_lowerUntilPct hc
  have := h c0 hc0
  rcases hh with rfl | ⟨hu, rfl⟩
  · exact this
  · simp only [isUpper, Bool.and_eq_true, decide_eq_true_eq] at hu
    omega

end Aiocoap.Uri
