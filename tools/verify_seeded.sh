#!/bin/sh
# usage: tools/verify_seeded.sh [seeded-id ...]   -- re-verifies the stored seeded changes against /repo's HEAD:
# for each seeded/<id>/: scratch worktree of /repo at HEAD (outside /repo and /verif), the demonstration must pass
# without the patch (exit 0) and fail with it (exit 1), and the property's quick check must report a VIOLATION
# with the patch.  Prints one line per change; the worktree is removed afterwards.
cd "$(dirname "$0")/.."
WT=$(mktemp -d /tmp/seedverify.XXXXXX)
git -C /repo worktree add -q --detach "$WT/repo" HEAD || exit 2
trap 'git -C /repo worktree remove --force "$WT/repo"; rm -rf "$WT"; git -C /repo worktree prune' EXIT
IDS=${@:-$(ls seeded)}
for ID in $IDS; do
  D=seeded/$ID; P=${ID%-*}
  [ -f $D/patch.diff ] || continue
  # patch.diff is the change as its author wrote it; patch.rebased.diff the same change carried over fix: commits
  # that moved its context (preferred when present, unless the change is pinned to a base commit)
  PATCH=$D/patch.diff
  DEMO=$(ls $D/demo.py $D/demo 2>/dev/null | head -1)
  # a change whose mechanism was removed by a later fix: is verified against the commit it was written for
  BASE=$(python3 -c "import json,sys; print(json.load(open('$D/meta.json')).get('base_commit',''))" 2>/dev/null)
  git -C "$WT/repo" checkout -q --detach ${BASE:-$(git -C /repo rev-parse HEAD)}
  [ -z "$BASE" ] && [ -f $D/patch.rebased.diff ] && PATCH=$D/patch.rebased.diff
  ( cd $D && timeout 600 /venv/bin/python $(basename $DEMO) "$WT/repo" >"$WT/clean.log" 2>&1 ); C=$?
  if ! git -C "$WT/repo" apply "$PWD/$PATCH" 2>/dev/null; then echo "$ID: PATCH DOES NOT APPLY"; continue; fi
  ( cd $D && timeout 600 /venv/bin/python $(basename $DEMO) "$WT/repo" >"$WT/mut.log" 2>&1 ); M=$?
  OUT=$(VERIF_REPO="$WT/repo" ./check $P quick 2>&1 | grep -v "^KNOWN-FINDING"); V=$?
  LINE=$(echo "$OUT" | grep "^VIOLATION" | head -1)
  git -C "$WT/repo" checkout -q -- . ; git -C "$WT/repo" clean -fdq
  ST=ok; [ "$C" = 0 ] || ST="DEMO-FAILS-ON-CLEAN($C)"; [ "$M" = 1 ] || ST="$ST DEMO-PASSES-WITH-CHANGE($M)"
  [ -n "$LINE" ] || ST="$ST NOT-DETECTED"
  echo "$ID: $ST${BASE:+ (at base commit $BASE)} | $LINE"
done
