#!/bin/sh
# usage: tools/run_mutants.sh <repo-worktree> <diff>... ; runs the check named by the diff's prefix (cNN-...)
WT=$1; shift
for d in "$@"; do
  name=$(basename $d .diff)
  prop=$(echo $name | cut -c1-3 | tr c C)
  git -C $WT checkout -q -- . && git -C $WT apply $(realpath $d) || { echo "$name: patch does not apply"; continue; }
  out=$(VERIF_REPO=$WT ./check $prop quick 2>&1 | grep -v Deprec | tail -3)
  code=$?
  viol=$(echo "$out" | grep -c VIOLATION)
  nf=$(echo "$out" | grep -c no-failing-input-found)
  echo "$name -> $prop: violation=$viol no-failing-input=$nf | $(echo "$out" | grep '^C' | cut -c1-160)"
  git -C $WT checkout -q -- .
done
