#!/bin/sh
# usage: tools/try_seeded.sh <Cxx> <k> [check-prop...]   (uses /tmp/mut/<Cxx> worktree and its out/ dir)
P=$1; K=$2; shift 2
WT=/tmp/mut/$P; OUT=$WT/${OUTDIR:-out}
CHECKS=${@:-$P}
git -C $WT checkout -q -- . ; git -C $WT checkout -q --detach $(git -C /repo rev-parse HEAD); git -C $WT status --short | grep -v "^?? out"
echo "== demo without change"; ( cd $OUT && timeout 300 /venv/bin/python demo$K.py $WT >/tmp/mut/$P.demo$K.clean.log 2>&1; echo "exit $?" )
git -C $WT apply $OUT/change$K.diff || { echo "patch does not apply"; exit 1; }
echo "== demo with change"; ( cd $OUT && timeout 300 /venv/bin/python demo$K.py $WT >/tmp/mut/$P.demo$K.mut.log 2>&1; echo "exit $?" )
for C in $CHECKS; do
  echo "== check $C (quick) with change"
  VERIF_REPO=$WT ./check $C quick 2>&1 | grep -v Deprec | tail -3
done
git -C $WT checkout -q -- .
