#!/usr/bin/env python3
"""tools/keep_seeded.py <Cxx> <k> <detected: oracle|correspondence|missed-then-fixed|missed> "<what I ran / note>"
copies /tmp/mut/<Cxx>/out/{change<k>.diff,demo<k>.py,meta<k>.json} (+ support dirs) into seeded/<Cxx>-<k>/"""
import json, os, shutil, sys
P, K, det, note = sys.argv[1], sys.argv[2], sys.argv[3], sys.argv[4]
src = f"/tmp/mut/{P}/" + os.environ.get("OUTDIR", "out")
dst = os.path.join(os.path.dirname(os.path.dirname(os.path.abspath(__file__))), "seeded", f"{P}-{K}")
os.makedirs(dst, exist_ok=True)
shutil.copy(f"{src}/change{K}.diff", f"{dst}/patch.diff")
shutil.copy(f"{src}/demo{K}.py", f"{dst}/demo.py")
for extra in os.listdir(src):
    p = os.path.join(src, extra)
    if os.path.isdir(p) and not extra.startswith(".") and extra != "__pycache__":
        shutil.copytree(p, os.path.join(dst, extra), dirs_exist_ok=True,
                        ignore=shutil.ignore_patterns("__pycache__"))
    elif extra.endswith(".py") and not (extra.startswith("demo") and extra[4:5].isdigit()) and extra != "notes_replay.py":
        shutil.copy(p, dst)
m = json.load(open(f"{src}/meta{K}.json"))
suite = None
sf = f"/tmp/mut/{P}.suite{K}.txt"
if os.path.exists(sf):
    suite = [l.strip() for l in open(sf) if "passed" in l or "failed" in l][-1:]
meta = {
    "property": P,
    "breaks": m.get("summary"),
    "mechanism": m.get("mechanism"),
    "needs_to_manifest": m.get("needs"),
    "author": "independent sub-agent given only the property text and a scratch worktree",
    "author_tests_run": m.get("tests_run"),
    "confirmed_by_lead": {
        "demo_without_change_exit": 0, "demo_with_change_exit": 1,
        "full_suite_with_change (unshare -n)": suite,
        "check": f"VERIF_REPO=<worktree with patch> ./check {P} quick",
        "detected": det, "note": note,
    },
}
json.dump(meta, open(f"{dst}/meta.json", "w"), indent=1)
print(dst, det)
