#!/usr/bin/env python3
"""Regenerates MANIFEST.json from the table below (keeps it schema-valid)."""
import json
import os

VERIF = os.path.dirname(os.path.dirname(os.path.abspath(__file__)))

# property -> (technique, level text, level note, design ref)
def load_claims():
    """tools/claims/Cxx.json: {technique, text, note, design_ref}"""
    d = os.path.join(VERIF, "tools", "claims")
    out = {}
    for fn in sorted(os.listdir(d)):
        if fn.endswith(".json"):
            c = json.load(open(os.path.join(d, fn)))
            out[fn[:-5]] = (c["technique"], c["text"], c["note"], c["design_ref"])
    return out


CLAIMED = load_claims()

NOT_YET = "not claimed yet: model/theorems/correspondence for this property are still being built (see DESIGN.md §9 build order)"


def main():
    props = [json.loads(l) for l in open(os.path.join(VERIF, "properties.jsonl"))]
    checks = []
    na = []
    for p in props:
        pid = p["id"]
        if pid in CLAIMED:
            tech, text, note, ref = CLAIMED[pid]
            checks.append({
                "property_id": pid,
                "quick_cmd": f"./check {pid} quick",
                "thorough_cmd": f"./check {pid} thorough",
                "evidence_file": f"evidence/{pid}.json",
                "replay_cmd_template": f"./check {pid} --replay {{path}}",
                "engine": "lean4-model+correspondence",
                "level_claimed": {"category": "proof", "text": text, "design_ref": ref},
                "level_note": note,
                "technique": tech,
            })
        else:
            na.append({"property_id": pid, "reason": NOT_YET})
    m = {
        "version": 1,
        "setup_cmd": "cd lean && lake build",
        "hooks": {
            "guard": "AIOCOAP_VERIF",
            "enable": "no source hooks are needed: nondeterminism (random, time, secrets) is pinned from the harness by patching module attributes; checks export AIOCOAP_VERIF=1 for completeness",
            "baseline_off_cmd": "cd /repo && /venv/bin/python -m pytest -ra -q -p no:cacheprovider --timeout=900 --continue-on-collection-errors",
            "source_commits": [],
            "add_only": True,
        },
        "engines": [{
            "name": "lean4-model+correspondence",
            "path": "lean/ (models, Proofs, Properties, Driver) + harness/ + check",
            "serves_properties": sorted(CLAIMED),
            "kind_free_text": "hand-written Lean 4 models with kernel-checked property theorems; a Python harness runs the compiled model driver and the implementation from /repo's working tree on the same inputs and diffs; an independent oracle per property searches for a concrete failing input",
        }],
        "checks": checks,
        "not_applicable": na,
        "notes": "See DESIGN.md. exit 2 = the check could not run (never a VIOLATION).",
    }
    with open(os.path.join(VERIF, "MANIFEST.json"), "w") as f:
        json.dump(m, f, indent=1)
        f.write("\n")


if __name__ == "__main__":
    main()
