import json,os,sys
for p in sys.argv[1:]:
    for k in ('violation','unproved'):
        fn=f'/verif/replays/{p}-{k}.json'
        if not os.path.exists(fn): continue
        r=json.load(open(fn))
        seen=set()
        for f in r.get('oracle_failures',[]):
            key=f['verdict'].split(':')[0]
            if key in seen: continue
            seen.add(key)
            print(p,'ORACLE', f['verdict'], '| tag', f['case']['script'].get('tag'))
            print('   events', [e for e in f['case']['script']['events']][:12], 'rules', f['case']['script'].get('rules'))
        for d in r['disagreements'][:int(os.environ.get('ND','2'))]:
            print(p,'DIS', d['case']['line'][:1200]); print('  M',d['model'][:1200]); print('  I',d['impl'][:1200])
