#!/bin/sh
# runs every claimed check for several seeds; prints only what is not a clean pass
(cd lean && lake build >/dev/null 2>&1) || { echo "lake build failed"; exit 2; }
props=$(python3 -c "import json;print(' '.join(c['property_id'] for c in json.load(open('MANIFEST.json'))['checks']))")
fail=0
for seed in ${SEEDS:-11 12 13 14 15 16 17 18}; do
  for p in $props; do
    out=$(VERIF_SEED=$seed ./check $p ${TIER:-quick} 2>&1); code=$?
    if [ $code -ne 0 ] || echo "$out" | grep -q "VIOLATION\|HARNESS"; then
      fail=1; echo "seed=$seed $p exit=$code"; echo "$out" | tail -5
      cp replays/$p-*.json /tmp/soak-$p-$seed.json 2>/dev/null
    fi
  done
  echo "seed $seed done"
done
echo "soak finished fail=$fail"
