#!/usr/bin/env python3
"""tools/design_append.py <Cxx> <file>: appends the paragraph in <file> to the end of DESIGN.md's section 6 entry of Cxx."""
import re, sys
P, f = sys.argv[1], sys.argv[2]
s = open('DESIGN.md').read()
heads = [(m.start(), m.group(0)) for m in re.finditer(r'^(### C\d\d |## 7\. )', s, re.M)]
idx = [i for i, (pos, h) in enumerate(heads) if h.startswith(f'### {P} ')]
assert len(idx) == 1, idx
end = heads[idx[0] + 1][0]
para = open(f).read().strip()
s = s[:end].rstrip('\n') + '\n\n' + para + '\n\n' + s[end:]
assert len(re.findall(r'^### C\d\d ', s, re.M)) == 20
open('DESIGN.md', 'w').write(s)
print("appended", len(para), "chars to", P)
