#!/bin/sh
# usage: tools/run_harmless.sh <scratch worktree of /repo at HEAD> [id ...]
# applies each behaviour-preserving patch of harmless/ (written by an independent sub-agent told to produce harmless
# maintenance commits in the anchored code of every property) and runs the property's quick check: none may report
# a VIOLATION with a failing input.  Patches that no longer apply to HEAD are reported as such.
WT=$1; shift
cd "$(dirname "$0")/.."
IDS=${@:-$(ls harmless | grep '\.diff$' | grep -v rebased | sed 's/\.diff$//')}
for id in $IDS; do
  P=${id%-*}
  git -C $WT checkout -q -- . ; git -C $WT clean -fdq
  PATCH=$PWD/harmless/$id.diff
  # (re-based by its author over fix: commits that touched the same lines)
  git -C $WT apply --check $PATCH 2>/dev/null || { [ -f $PWD/harmless/$id.rebased.diff ] && PATCH=$PWD/harmless/$id.rebased.diff; }
  if ! git -C $WT apply $PATCH 2>/dev/null; then echo "$id: does not apply"; continue; fi
  out=$(VERIF_REPO=$WT ./check $P quick 2>&1 | grep "^C.. quick\|^VIOLATION\|HARNESS" | cut -c1-230 | tr '\n' ' ')
  echo "$id: $out"
done
git -C $WT checkout -q -- .
