#!/venv/bin/python
"""tools/anchor_coverage.py Cxx [cov.json]  -- which lines of the files property Cxx is anchored in were never
executed by `VERIF_COV=cov.json ./check Cxx quick` (run first).  Lists, per function, the missed executable lines
(functions that were never entered are listed by name only)."""
import ast
import json
import os
import sys

VERIF = os.path.dirname(os.path.dirname(os.path.abspath(__file__)))
P = sys.argv[1]
cov = json.load(open(sys.argv[2] if len(sys.argv) > 2 else f"/tmp/cov-{P}.json"))
repo = os.environ.get("VERIF_REPO", "/repo")
prop = [json.loads(l) for l in open(os.path.join(VERIF, "properties.jsonl")) if json.loads(l)["id"] == P][0]
files = prop["anchors"]["files"]
only = set(sys.argv[3:])


def exec_lines(code, acc):
    for _, _, line in code.co_lines():
        if line is not None:
            acc.add(line)
    for c in code.co_consts:
        if hasattr(c, "co_lines"):
            exec_lines(c, acc)


for f in files:
    path = os.path.join(repo, f)
    src = open(path).read()
    tree = ast.parse(src)
    hit = set(cov.get(f, []))
    funcs = []

    def walk(node, prefix=""):
        for ch in ast.iter_child_nodes(node):
            if isinstance(ch, (ast.FunctionDef, ast.AsyncFunctionDef)):
                funcs.append((prefix + ch.name, ch.lineno, ch.end_lineno))
                walk(ch, prefix + ch.name + ".")
            elif isinstance(ch, ast.ClassDef):
                walk(ch, prefix + ch.name + ".")
            else:
                walk(ch, prefix)
    walk(tree)
    allexec = set()
    exec_lines(compile(src, path, "exec"), allexec)
    print(f"== {f}: {len(hit & allexec)}/{len(allexec)} executable lines hit")
    lines = src.split("\n")
    for name, a, b in funcs:
        if only and not any(o in name for o in only):
            continue
        body = {l for l in allexec if a < l <= b}
        inner = set()
        for n2, a2, b2 in funcs:
            if a2 > a and b2 <= b and n2 != name:
                inner |= {l for l in allexec if a2 <= l <= b2}
        body -= inner
        if not body:
            continue
        missed = sorted(body - hit)
        if not missed:
            continue
        if len(missed) == len(body):
            print(f"   never entered: {name} ({a}-{b})")
        else:
            print(f"   {name} ({a}-{b}): {len(missed)}/{len(body)} lines missed")
            for l in missed:
                print(f"      {l}: {lines[l - 1].strip()[:110]}")
