#!/bin/sh
# usage: tools/suite_with.sh <worktree> <diff> <result-file> ; runs the baseline suite in a private netns
WT=$1; D=$(realpath $2); OUT=$3
git -C $WT checkout -q -- . && git -C $WT checkout -q --detach $(git -C /repo rev-parse HEAD) && git -C $WT apply $D || { echo "patch does not apply" > $OUT; exit 1; }
unshare -n sh -c "ip link set lo up; cd $WT && timeout 1200 /venv/bin/python -m pytest -q -p no:cacheprovider --timeout=900 --continue-on-collection-errors -x -q 2>&1 | grep -v '^DEBUG\|^INFO\|^WARNING' | tail -15" > $OUT.full 2>&1
unshare -n sh -c "ip link set lo up; cd $WT && timeout 1200 /venv/bin/python -m pytest -q -p no:cacheprovider --timeout=900 --continue-on-collection-errors 2>&1 | grep -E '^(FAILED|ERROR)|passed|failed' | tail -12" > $OUT 2>&1
git -C $WT checkout -q -- .
