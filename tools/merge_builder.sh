#!/bin/sh
# usage: tools/merge_builder.sh <Cxx> <verif-branch> <repo-branch>   (lead only)
# cherry-picks the builder's fix: commits onto /repo's main, merges the builder's verif branch, folds findings/<Cxx>.json
# into known_findings.json with the shas the commits got on main, regenerates MANIFEST.json.
set -e
P=$1; VB=$2; RB=$3
cd "$(dirname "$0")/.."
MAP=$(mktemp)
for c in $(git -C /repo rev-list --reverse main..$RB); do
  subj=$(git -C /repo log -1 --format=%s $c)
  case "$subj" in fix:*) ;; *) echo "skipping non-fix commit $c $subj"; continue;; esac
  git -C /repo cherry-pick -x $c >/dev/null || { echo "cherry-pick of $c failed"; exit 1; }
  new=$(git -C /repo rev-parse --short HEAD)
  # drop the "(cherry picked from ...)" trailer: commits on main are plain
  git -C /repo commit -q --amend -m "$(git -C /repo log -1 --format=%B | grep -v '^(cherry picked from')"
  new=$(git -C /repo rev-parse --short HEAD)
  echo "$(git -C /repo rev-parse --short $c) $new" >> $MAP
  echo "picked $c -> $new  $subj"
done
git merge -q --no-ff -m "merge $VB" $VB
python3 - "$P" "$MAP" <<'PY'
import json, sys, os
P, mapf = sys.argv[1], sys.argv[2]
m = dict(l.split() for l in open(mapf) if l.strip())
kf = json.load(open('known_findings.json'))
have = {(f['property'], f.get('key'), f.get('status'), f.get('commit')) for f in kf['findings']}
fp = f'findings/{P}.json'
n = 0
if os.path.exists(fp):
    for f in json.load(open(fp)):
        c = f.get('commit')
        if c and c[:7] in m:
            new = m[c[:7]]
            f['what'] = f['what'].replace(c, new).replace(c[:7], new)
            f['commit'] = new
        elif c and f['status'] == 'fixed' and any(h[:3] == (f['property'], f.get('key'), 'fixed') for h in have):
            continue
        if (f['property'], f.get('key'), f.get('status'), f.get('commit')) in have:
            continue
        if f['status'] == 'fixed' and not f['what'].startswith('fixed:'):
            f['what'] = f"fixed: property={f['property']} {f['commit']} " + f['what']
        kf['findings'].append(f); n += 1
json.dump(kf, open('known_findings.json', 'w'), indent=1, ensure_ascii=False)
print("folded", n, "findings; sha map", m)
PY
python3 tools/manifest.py >/dev/null
rm -f $MAP
git add -A; git commit -qm "$P: fold builder findings, manifest" || true
echo merged $P
